
val negb : bool -> bool

type nat =
| O
| S of nat

val option_map : ('a1 -> 'a2) -> 'a1 option -> 'a2 option

type ('a, 'b) sum =
| Inl of 'a
| Inr of 'b

val fst : ('a1 * 'a2) -> 'a1

val snd : ('a1 * 'a2) -> 'a2

val length : 'a1 list -> nat

val app : 'a1 list -> 'a1 list -> 'a1 list

type comparison =
| Eq
| Lt
| Gt

val compOpp : comparison -> comparison

val add : nat -> nat -> nat

val sub : nat -> nat -> nat

type byte =
| X00
| X01
| X02
| X03
| X04
| X05
| X06
| X07
| X08
| X09
| X0a
| X0b
| X0c
| X0d
| X0e
| X0f
| X10
| X11
| X12
| X13
| X14
| X15
| X16
| X17
| X18
| X19
| X1a
| X1b
| X1c
| X1d
| X1e
| X1f
| X20
| X21
| X22
| X23
| X24
| X25
| X26
| X27
| X28
| X29
| X2a
| X2b
| X2c
| X2d
| X2e
| X2f
| X30
| X31
| X32
| X33
| X34
| X35
| X36
| X37
| X38
| X39
| X3a
| X3b
| X3c
| X3d
| X3e
| X3f
| X40
| X41
| X42
| X43
| X44
| X45
| X46
| X47
| X48
| X49
| X4a
| X4b
| X4c
| X4d
| X4e
| X4f
| X50
| X51
| X52
| X53
| X54
| X55
| X56
| X57
| X58
| X59
| X5a
| X5b
| X5c
| X5d
| X5e
| X5f
| X60
| X61
| X62
| X63
| X64
| X65
| X66
| X67
| X68
| X69
| X6a
| X6b
| X6c
| X6d
| X6e
| X6f
| X70
| X71
| X72
| X73
| X74
| X75
| X76
| X77
| X78
| X79
| X7a
| X7b
| X7c
| X7d
| X7e
| X7f
| X80
| X81
| X82
| X83
| X84
| X85
| X86
| X87
| X88
| X89
| X8a
| X8b
| X8c
| X8d
| X8e
| X8f
| X90
| X91
| X92
| X93
| X94
| X95
| X96
| X97
| X98
| X99
| X9a
| X9b
| X9c
| X9d
| X9e
| X9f
| Xa0
| Xa1
| Xa2
| Xa3
| Xa4
| Xa5
| Xa6
| Xa7
| Xa8
| Xa9
| Xaa
| Xab
| Xac
| Xad
| Xae
| Xaf
| Xb0
| Xb1
| Xb2
| Xb3
| Xb4
| Xb5
| Xb6
| Xb7
| Xb8
| Xb9
| Xba
| Xbb
| Xbc
| Xbd
| Xbe
| Xbf
| Xc0
| Xc1
| Xc2
| Xc3
| Xc4
| Xc5
| Xc6
| Xc7
| Xc8
| Xc9
| Xca
| Xcb
| Xcc
| Xcd
| Xce
| Xcf
| Xd0
| Xd1
| Xd2
| Xd3
| Xd4
| Xd5
| Xd6
| Xd7
| Xd8
| Xd9
| Xda
| Xdb
| Xdc
| Xdd
| Xde
| Xdf
| Xe0
| Xe1
| Xe2
| Xe3
| Xe4
| Xe5
| Xe6
| Xe7
| Xe8
| Xe9
| Xea
| Xeb
| Xec
| Xed
| Xee
| Xef
| Xf0
| Xf1
| Xf2
| Xf3
| Xf4
| Xf5
| Xf6
| Xf7
| Xf8
| Xf9
| Xfa
| Xfb
| Xfc
| Xfd
| Xfe
| Xff

val of_bits :
  (bool * (bool * (bool * (bool * (bool * (bool * (bool * bool))))))) -> byte

val to_bits :
  byte -> bool * (bool * (bool * (bool * (bool * (bool * (bool * bool))))))

val eqb : bool -> bool -> bool

module Nat :
 sig
  val eqb : nat -> nat -> bool

  val leb : nat -> nat -> bool

  val ltb : nat -> nat -> bool
 end

val nth : nat -> 'a1 list -> 'a1 -> 'a1

val nth_error : 'a1 list -> nat -> 'a1 option

val rev : 'a1 list -> 'a1 list

val map : ('a1 -> 'a2) -> 'a1 list -> 'a2 list

val flat_map : ('a1 -> 'a2 list) -> 'a1 list -> 'a2 list

val fold_left : ('a1 -> 'a2 -> 'a1) -> 'a2 list -> 'a1 -> 'a1

val existsb : ('a1 -> bool) -> 'a1 list -> bool

val forallb : ('a1 -> bool) -> 'a1 list -> bool

val firstn : nat -> 'a1 list -> 'a1 list

val skipn : nat -> 'a1 list -> 'a1 list

type positive =
| XI of positive
| XO of positive
| XH

type n =
| N0
| Npos of positive

type z =
| Z0
| Zpos of positive
| Zneg of positive

module Pos :
 sig
  type mask =
  | IsNul
  | IsPos of positive
  | IsNeg
 end

module Coq_Pos :
 sig
  val succ : positive -> positive

  val add : positive -> positive -> positive

  val add_carry : positive -> positive -> positive

  val pred_double : positive -> positive

  val pred_N : positive -> n

  type mask = Pos.mask =
  | IsNul
  | IsPos of positive
  | IsNeg

  val succ_double_mask : mask -> mask

  val double_mask : mask -> mask

  val double_pred_mask : positive -> mask

  val sub_mask : positive -> positive -> mask

  val sub_mask_carry : positive -> positive -> mask

  val mul : positive -> positive -> positive

  val iter : ('a1 -> 'a1) -> 'a1 -> positive -> 'a1

  val div2 : positive -> positive

  val div2_up : positive -> positive

  val compare_cont : comparison -> positive -> positive -> comparison

  val compare : positive -> positive -> comparison

  val eqb : positive -> positive -> bool

  val coq_Nsucc_double : n -> n

  val coq_Ndouble : n -> n

  val coq_lor : positive -> positive -> positive

  val coq_land : positive -> positive -> n

  val ldiff : positive -> positive -> n

  val coq_lxor : positive -> positive -> n

  val testbit : positive -> n -> bool

  val iter_op : ('a1 -> 'a1 -> 'a1) -> positive -> 'a1 -> 'a1

  val to_nat : positive -> nat

  val of_succ_nat : nat -> positive
 end

module N :
 sig
  val succ_double : n -> n

  val double : n -> n

  val succ_pos : n -> positive

  val sub : n -> n -> n

  val compare : n -> n -> comparison

  val leb : n -> n -> bool

  val div2 : n -> n

  val pos_div_eucl : positive -> n -> n * n

  val coq_lor : n -> n -> n

  val coq_land : n -> n -> n

  val ldiff : n -> n -> n

  val coq_lxor : n -> n -> n

  val shiftr : n -> n -> n

  val testbit : n -> n -> bool

  val b2n : bool -> n
 end

module Z :
 sig
  val double : z -> z

  val succ_double : z -> z

  val pred_double : z -> z

  val pos_sub : positive -> positive -> z

  val add : z -> z -> z

  val opp : z -> z

  val sub : z -> z -> z

  val mul : z -> z -> z

  val pow_pos : z -> positive -> z

  val pow : z -> z -> z

  val compare : z -> z -> comparison

  val leb : z -> z -> bool

  val ltb : z -> z -> bool

  val gtb : z -> z -> bool

  val eqb : z -> z -> bool

  val max : z -> z -> z

  val min : z -> z -> z

  val to_nat : z -> nat

  val to_N : z -> n

  val of_nat : nat -> z

  val of_N : n -> z

  val pos_div_eucl : positive -> z -> z * z

  val div_eucl : z -> z -> z * z

  val div : z -> z -> z

  val modulo : z -> z -> z

  val quotrem : z -> z -> z * z

  val rem : z -> z -> z

  val div2 : z -> z

  val shiftl : z -> z -> z

  val shiftr : z -> z -> z

  val coq_lor : z -> z -> z

  val coq_land : z -> z -> z

  val coq_lxor : z -> z -> z
 end

val eqb0 : byte -> byte -> bool

val to_N0 : byte -> n

val of_N0 : n -> byte option

type ascii =
| Ascii of bool * bool * bool * bool * bool * bool * bool * bool

val byte_of_ascii : ascii -> byte

type string =
| EmptyString
| String of ascii * string

val list_ascii_of_string : string -> ascii list

val list_byte_of_string : string -> byte list

type bytes = byte list

val zb : byte -> z

val bZ : z -> byte

val tag : string -> bytes

val wrap_s : z -> z -> z

val i16_max : z

val i32_max : z

val i32_min : z

val i64_max : z

val i64_min : z

val be_enc : nat -> z -> bytes

val be_dec_acc : bytes -> z -> z

val be_dec_u : bytes -> z

val be_dec_s : bytes -> z

val enc_i8 : z -> bytes

val enc_i16 : z -> bytes

val enc_i32 : z -> bytes

val enc_i64 : z -> bytes

type ioerr =
| IoUnexpectedEof
| IoWriteZero
| IoTimedOut
| IoConnRefused
| IoOther

type err =
| EIo of ioerr
| EInvalidSnappy
| EKafka of z
| ETopicPartition of bytes * z * z
| EUnsupportedProtocol
| EUnsupportedCompression
| EUnexpectedEOF
| ECodec
| EStringDecode
| ENoHostReachable
| ENoTopicsAssigned
| EInvalidDuration
| EUnsetOffsetStorage
| EUnsetGroupId
| EOutOfScript
| EOutOfFuel

type 'a res =
| Ok of 'a
| Err of err
| Panic of bytes

val bind : 'a1 res -> ('a1 -> 'a2 res) -> 'a2 res

val bytes_eqb : bytes -> bytes -> bool

val bytes_cmp : bytes -> bytes -> comparison

val bytes_ltb : bytes -> bytes -> bool

val zread : nat -> bytes -> (bytes * bytes) res

val zread_i8 : bytes -> (z * bytes) res

val zread_i16 : bytes -> (z * bytes) res

val zread_i32 : bytes -> (z * bytes) res

val zread_i64 : bytes -> (z * bytes) res

val zread_bytes : bytes -> (bytes * bytes) res

val zread_array_len : bytes -> (z * bytes) res

val aPI_KEY_PRODUCE : z

val aPI_KEY_FETCH : z

val aPI_KEY_OFFSET : z

val aPI_KEY_METADATA : z

val aPI_KEY_OFFSET_COMMIT : z

val aPI_KEY_OFFSET_FETCH : z

val aPI_KEY_GROUP_COORDINATOR : z

val aPI_VERSION : z

val lIST_OFFSET_V1 : z

val oFFSET_FETCH_V0 : z

val oFFSET_FETCH_V1 : z

val oFFSET_COMMIT_V0 : z

val oFFSET_COMMIT_V1 : z

val oFFSET_COMMIT_V2 : z

val mESSAGE_MAGIC_BYTE : z

val cOMPRESSION_NONE : z

val cOMPRESSION_GZIP : z

val cOMPRESSION_SNAPPY : z

val aCKS_One : z

val fETCH_OFFSET_EARLIEST : z

val fETCH_OFFSET_LATEST : z

val sTORAGE_ZK_FETCH_VERSION : z

val sTORAGE_KAFKA_FETCH_VERSION : z

val sTORAGE_ZK_COMMIT_VERSION : z

val sTORAGE_KAFKA_COMMIT_VERSION : z

val dEFAULT_FETCH_MAX_WAIT_TIME_MILLIS : z

val dEFAULT_FETCH_MIN_BYTES : z

val dEFAULT_FETCH_MAX_BYTES_PER_PARTITION : z

val dEFAULT_RETRY_BACKOFF_TIME_MILLIS : z

val dEFAULT_CONNECTION_IDLE_TIMEOUT_MILLIS : z

val dEFAULT_RETRY_MAX_ATTEMPTS : z

val dEFAULT_FETCH_CRC_VALIDATION : bool

val dEFAULT_COMPRESSION : z

val cORRELATION_MODULUS : z

val dEFAULT_RETRY_MAX_BYTES_LIMIT : z

val dEFAULT_FALLBACK_OFFSET : z

val dEFAULT_ACK_TIMEOUT_MILLIS : z

val dEFAULT_REQUIRED_ACKS : z

val inr : z -> z -> z -> bool

val utf8_go : nat -> bytes -> bool

val utf8_valid : bytes -> bool

val ulen : 'a1 list -> z

val enc_str : bytes -> bytes res

val enc_bytes : bytes -> bytes res

val enc_opt_bytes : bytes option -> bytes res

val enc_all : ('a1 -> bytes res) -> 'a1 list -> bytes res

val enc_array : ('a1 -> bytes res) -> 'a1 list -> bytes res

val enc_array_unchecked : ('a1 -> bytes res) -> 'a1 list -> bytes res

type 'a dec = bytes -> ('a * bytes) res

val cread : nat -> bytes dec

val dec_i16 : z dec

val dec_i32 : z dec

val dec_i64 : z dec

val dec_string : bytes dec

val alloc_limit : z

val alloc_panic : 'a1 res

val dec_many : 'a1 dec -> nat -> z -> bytes -> ('a1 list * bytes) res

val dec_vec : z -> 'a1 dec -> 'a1 list dec

val sz_i32 : z

val sz_i64 : z

val poly : n

val t : n -> n

val step_bit : n -> bool -> n

val bits_of_byte : byte -> bool list

val bits_of_bytes : bytes -> bool list

val crc_update : n -> bytes -> n

val crc32 : bytes -> z

type codecs = { gz_compress : (bytes -> bytes);
                sn_compress : (bytes -> bytes);
                gz_decompress : (bytes -> bytes option); debug_build : 
                bool }

val enc_header : z -> z -> z -> bytes -> bytes res

val frame : bytes -> bytes

val enc_metadata_req : z -> bytes -> bytes list -> bytes res

val tp_add :
  (bytes * 'a1 list) list -> bytes -> 'a1 -> (bytes * 'a1 list) list

val enc_tps : ('a1 -> bytes res) -> (bytes * 'a1 list) list -> bytes res

val enc_offset_req : z -> bytes -> (bytes * (z * z) list) list -> bytes res

val enc_list_offsets_req :
  z -> bytes -> (bytes * (z * z) list) list -> bytes res

type fetch_parts = (z * (z * z)) list

type fetch_tps = (bytes * fetch_parts) list

val fp_insert : fetch_parts -> z -> (z * z) -> fetch_parts

val fetch_add : fetch_tps -> bytes -> z -> z -> z -> fetch_tps

val enc_fetch_req : z -> bytes -> z -> z -> fetch_tps -> bytes res

type pmsg = bytes option * bytes option

val enc_message : z -> z -> pmsg -> bytes res

val enc_messages : pmsg list -> bytes res

val enc_partition_produce : codecs -> z -> z -> pmsg list -> bytes res

type produce_parts = (z * pmsg list) list

type produce_tps = (bytes * produce_parts) list

val pp_add : produce_parts -> z -> pmsg -> produce_parts

val produce_add : produce_tps -> bytes -> z -> pmsg -> produce_tps

val enc_produce_req :
  codecs -> z -> bytes -> z -> z -> z -> produce_tps -> bytes res

val enc_group_coordinator_req : z -> bytes -> bytes -> bytes res

val enc_offset_fetch_req :
  z -> bytes -> bytes -> z -> (bytes * z list) list -> bytes res

val enc_offset_commit_req :
  z -> bytes -> bytes -> z -> (bytes * (z * z) list) list -> bytes res

val u32_max : z

val varint_go : nat -> z -> z -> bytes -> (z * bytes) option

val snappy_header : bytes -> (z * bytes) option

val snappy_decompress_len_Z : bytes -> z option

val le_dec : bytes -> z

val split_exact : nat -> bytes -> (bytes * bytes) option

val take_rev : bytes -> z -> bytes -> (bytes * bytes) option

val copy_slow : nat -> nat -> bytes -> bytes

val copy_back : nat -> nat -> bytes -> bytes

val lit_len : z -> bytes -> (z * bytes) option

val copy_params : z -> (nat * z) * z

val decode_step :
  z -> byte -> bytes -> bytes -> z -> ((bytes * bytes) * z) option

val decode_tags : nat -> z -> bytes -> bytes -> z -> bytes option

val snappy_raw_decompress : bytes -> bytes option

val uncompress_to : bytes -> bytes -> bytes option

val uncompress_alloc : bytes -> bytes -> z

val xerial_magic : bytes

val validate_stream : bytes -> bytes res

val io_other : 'a1 res

val split_at_panic : bytes

val xerial_loop : nat -> bytes -> bytes -> z -> bytes res * z

val xerial_run : bytes -> bytes res * z

val xerial_read_to_end : bytes -> bytes res

type kcode =
| KUnknown
| KOffsetOutOfRange
| KCorruptMessage
| KUnknownTopicOrPartition
| KInvalidMessageSize
| KLeaderNotAvailable
| KNotLeaderForPartition
| KRequestTimedOut
| KBrokerNotAvailable
| KReplicaNotAvailable
| KMessageSizeTooLarge
| KStaleControllerEpoch
| KOffsetMetadataTooLarge
| KNetworkException
| KGroupLoadInProgress
| KGroupCoordinatorNotAvailable
| KNotCoordinatorForGroup
| KInvalidTopic
| KRecordListTooLarge
| KNotEnoughReplicas
| KNotEnoughReplicasAfterAppend
| KInvalidRequiredAcks
| KIllegalGeneration
| KInconsistentGroupProtocol
| KInvalidGroupId
| KUnknownMemberId
| KInvalidSessionTimeout
| KRebalanceInProgress
| KInvalidCommitOffsetSize
| KTopicAuthorizationFailed
| KGroupAuthorizationFailed
| KClusterAuthorizationFailed
| KInvalidTimestamp
| KUnsupportedSaslMechanism
| KIllegalSaslState
| KUnsupportedVersion

val kcode_disc : kcode -> z

val from_protocol_lo : z

val from_protocol_hi : z

val from_protocol_default : z

val from_protocol : z -> z option

val kC_UnknownTopicOrPartition : z

val kC_CorruptMessage : z

val kC_GroupLoadInProgress : z

val kC_GroupCoordinatorNotAvailable : z

val kC_NotCoordinatorForGroup : z

val kC_MessageSizeTooLarge : z

val kC_Unknown : z

val dec_corr : z dec

type broker_md = { bm_node : z; bm_host : bytes; bm_port : z }

type partition_md = { pm_error : z; pm_id : z; pm_leader : z;
                      pm_replicas : z list; pm_isr : z list }

type topic_md = { tm_error : z; tm_topic : bytes;
                  tm_partitions : partition_md list }

type metadata_resp = { md_corr : z; md_brokers : broker_md list;
                       md_topics : topic_md list }

val dec_broker_md : broker_md dec

val dec_partition_md : partition_md dec

val dec_topic_md : topic_md dec

val dec_metadata_resp : metadata_resp dec

val dec_tps : z -> 'a1 dec -> (bytes * 'a1 list) list dec

type part_offset_resp = { por_partition : z; por_error : z;
                          por_offsets : z list }

val dec_part_offset_resp : part_offset_resp dec

val dec_offset_resp : (z * (bytes * part_offset_resp list) list) dec

val to_offset : part_offset_resp -> (z * z, z) sum

type list_offset_part = { lop_partition : z; lop_error : z;
                          lop_timestamp : z; lop_offset : z }

val dec_list_offset_part : list_offset_part dec

val dec_list_offsets_resp : (z * (bytes * list_offset_part list) list) dec

val lop_to_offset : list_offset_part -> ((z * z) * z, z) sum

type produce_part = { pp_partition : z; pp_error : z; pp_offset : z }

val dec_produce_part : produce_part dec

val dec_produce_resp : (z * (bytes * produce_part list) list) dec

val produce_confirm : produce_part -> z * (z, z) sum

type coordinator_resp = { gc_corr : z; gc_error : z; gc_broker : z;
                          gc_host : bytes; gc_port : z }

val dec_coordinator_resp : coordinator_resp dec

type offset_fetch_part = { ofp_partition : z; ofp_offset : z;
                           ofp_metadata : bytes; ofp_error : z }

val dec_offset_fetch_part : offset_fetch_part dec

val dec_offset_fetch_resp : (z * (bytes * offset_fetch_part list) list) dec

val get_offsets : offset_fetch_part -> (z * z, z) sum

val dec_offset_commit_part : (z * z) dec

val dec_offset_commit_resp : (z * (bytes * (z * z) list) list) dec

type message = { m_offset : z; m_key : bytes; m_value : bytes }

val protocol_message : bool -> bool -> bytes -> ((z * bytes) * bytes) res

val next_message :
  bool -> bool -> bytes -> ((z * ((z * bytes) * bytes)) * bytes) res

val ms_loop :
  (z -> bytes -> message list res) -> bool -> bool -> z -> nat -> bytes ->
  message list -> message list res

val from_slice : codecs -> nat -> bool -> z -> bytes -> message list res

type fetch_part = { fp_partition : z; fp_data : (z * message list, z) sum }

type fetch_topic = { ft_topic : bytes; ft_partitions : fetch_part list }

type fetch_resp = { fr_corr : z; fr_topics : fetch_topic list }

val assoc_bytes : bytes -> (bytes * 'a1) list -> 'a1 option

val assoc_z : z -> (z * 'a1) list -> 'a1 option

val zread_str : bytes -> (bytes * bytes) res

val read_partition :
  codecs -> nat -> bool -> fetch_parts option -> bytes ->
  (fetch_part * bytes) res

val zread_many :
  (bytes -> ('a1 * bytes) res) -> nat -> z -> bytes -> ('a1 list * bytes) res

val zread_array :
  z -> (bytes -> ('a1 * bytes) res) -> bytes -> ('a1 list * bytes) res

val read_topic :
  codecs -> nat -> bool -> fetch_tps -> bytes -> (fetch_topic * bytes) res

val fetch_from_vec :
  codecs -> nat -> bool -> fetch_tps -> bytes -> fetch_resp res

val uNKNOWN_BROKER_INDEX : z

type broker = { b_node : z; b_host : bytes }

type cstate = { correlation : z; brokers : broker list;
                topic_partitions : (bytes * z list) list;
                group_coordinators : (bytes * z) list }

val cstate_new : cstate

val nth_z : 'a1 list -> z -> 'a1 option

val dec_digits : nat -> z -> bytes -> bytes

val dec_of_Z : z -> bytes

val host_port : bytes -> z -> bytes

val partitions_for : cstate -> bytes -> z list option

val broker_of : cstate -> z -> broker option

val partition_ref : z list -> z -> z option

val find_broker : cstate -> bytes -> z -> bytes option

val contains_topic_partition : cstate -> bytes -> z -> bool

val next_correlation_id : cstate -> z * cstate

val clear_metadata : cstate -> cstate

val idx_insert : (z * z) list -> z -> z -> (z * z) list

val index_brokers : broker list -> z -> (z * z) list -> (z * z) list

val set_host : broker list -> nat -> bytes -> broker list

val update_brokers_go :
  broker_md list -> broker list -> (z * z) list -> broker list * (z * z) list

val update_brokers : cstate -> metadata_resp -> broker list * (z * z) list

val resize_refs : z list -> nat -> z list

val set_ref : z list -> nat -> z -> z list

val sync_partitions :
  (z * z) list -> partition_md list -> z list -> z list res

val tp_set : (bytes * z list) list -> bytes -> z list -> (bytes * z list) list

val update_topics :
  (z * z) list -> topic_md list -> (bytes * z list) list -> (bytes * z list)
  list res

val update_metadata : cstate -> metadata_resp -> cstate res

val group_coordinator : cstate -> bytes -> bytes option

val gc_remove : (bytes * z) list -> bytes -> (bytes * z) list

val remove_group_coordinator : cstate -> bytes -> cstate

val find_node : broker list -> z -> z -> z option

val gc_set : (bytes * z) list -> bytes -> z -> (bytes * z) list

val set_group_coordinator :
  cstate -> bytes -> coordinator_resp -> bytes * cstate

type ev_out =
| OConn of bool
| OWrote of z
| OWriteIntr
| OWriteFail of ioerr
| OData of bytes
| OReadIntr
| OReadFail of ioerr
| OShut

type ev_op =
| EConnect of bytes
| EWrite of bytes * bytes
| ERead of bytes * z
| EShutdown of bytes

type config = { client_id : bytes; hosts : bytes list; compression : 
                z; fetch_max_wait_time : z; fetch_min_bytes : z;
                fetch_max_bytes_per_partition : z;
                fetch_crc_validation : bool; offset_storage : z;
                retry_backoff_time : (z * z); retry_max_attempts : z;
                idle_timeout : (z * z) }

type client = { cfg : config; cs : cstate; conns : bytes list }

type st = { script : ev_out list; trace : ev_op list; anyq : bytes list;
            hostq : bytes list list;
            fetchq : (bytes * (bytes * z list) list) list;
            entryq : (bytes * z) list list; cl : client; env : codecs }

type 'a m = st -> 'a res * st

val ret : 'a1 -> 'a1 m

val fail : err -> 'a1 m

val mpanic : bytes -> 'a1 m

val lift : 'a1 res -> 'a1 m

val mbind : 'a1 m -> ('a1 -> 'a2 m) -> 'a2 m

val mtry : 'a1 m -> 'a1 res m

val st_with : st -> ev_out list -> ev_op list -> st

val get_client : client m

val set_client : client -> unit m

val get_env : codecs m

val set_cs : cstate -> unit m

val set_conns : bytes list -> unit m

val io : ev_op -> ev_out m

val with_fuel : (nat -> 'a1 m) -> 'a1 m

val pop_any : bytes option m

val pop_hosts : bytes list m

val pop_entries : (bytes * z) list m

val get_fetch_order : bytes -> (bytes * z list) list option m

val write_all : nat -> bytes -> bytes -> unit m

val send : bytes -> bytes -> z m

val read_exact : nat -> bytes -> z -> bytes -> bytes m

val read_exact_alloc : bytes -> z -> bytes m

val get_response_size : bytes -> z m

val idle_expired : config -> bool

val in_pool : bytes -> bytes list -> bool

val new_conn : bytes -> unit m

val shutdown : bytes -> unit m

val get_conn : bytes -> unit m

val get_conn_any : bytes option m

val send_request : bytes -> bytes res -> z m

val get_response_bytes : bytes -> bytes m

val get_response : 'a1 dec -> bytes -> 'a1 m

val send_receive : 'a1 dec -> bytes -> bytes res -> 'a1 m

type val0 =
| VI of z
| VB of bytes
| VL of val0 list
| VT of bytes * val0 list

val vint : val0 -> z

val vbytes : val0 -> bytes

val vlist : val0 -> val0 list

val vname : val0 -> bytes

val vargs : val0 -> val0 list

val varg : val0 -> nat -> val0

val is_tag : val0 -> string -> bool

val vt : string -> val0 list -> val0

val vbool : bool -> val0

val vunit : val0

val ioerr_val : ioerr -> val0

val ioerr_of : val0 -> ioerr

val err_val : err -> val0

val res_val : ('a1 -> val0) -> 'a1 res -> val0

val ev_out_of : val0 -> ev_out

val ev_op_val : ev_op -> val0

val lookup_bytes : bytes -> (bytes * bytes) list -> bytes option

val pair_of : val0 -> bytes * bytes

val env_of : val0 -> codecs

val u64_max : z

val to_millis_i32 : (z * z) -> z res

val default_config : bytes list -> config

val client_new : bytes list -> client

val next_corr : z m

val take_key :
  bytes -> (bytes * 'a1) list -> ((bytes * 'a1) * (bytes * 'a1) list) option

val reorder : bytes list -> (bytes * 'a1) list -> (bytes * 'a1) list

val take_zkey : z -> (z * 'a1) list -> ((z * 'a1) * (z * 'a1) list) option

val reorder_z : z list -> (z * 'a1) list -> (z * 'a1) list

val fetch_metadata_hosts : z -> bytes list -> bytes list -> metadata_resp m

val fetch_metadata : bytes list -> metadata_resp m

val load_metadata : bytes list -> unit m

val reset_metadata : unit m

val load_metadata_all : unit m

val host_add :
  (bytes * (bytes * 'a1 list) list) list -> bytes -> bytes -> 'a1 ->
  (bytes * (bytes * 'a1 list) list) list

val leaders_from : cstate -> z list -> z -> (z * bytes) list

val offset_reqs :
  cstate -> bytes list -> z -> (bytes * (bytes * (z * z) list) list) list

val res_push :
  (bytes * 'a1 list) list -> bytes -> 'a1 list -> (bytes * 'a1 list) list

val collect :
  ('a1 -> ('a2, z) sum) -> ('a1 -> z) -> 'a1 list -> 'a2 list -> ('a2 list,
  z * z) sum

val merge_topics :
  ('a1 -> ('a2, z) sum) -> ('a1 -> z) -> (bytes * 'a1 list) list ->
  (bytes * 'a2 list) list -> (bytes * 'a2 list) list res

val offsets_exchange :
  ((bytes * (z * z) list) list -> bytes res) -> (z * (bytes * 'a1 list) list)
  dec -> ('a1 -> ('a2, z) sum) -> ('a1 -> z) -> (bytes * (bytes * (z * z)
  list) list) list -> (bytes * 'a2 list) list -> (bytes * 'a2 list) list m

val ordered : (bytes * 'a1) list -> (bytes * 'a1) list m

val fetch_offsets : bytes list -> z -> (bytes * (z * z) list) list m

val list_offsets : bytes list -> z -> (bytes * ((z * z) * z) list) list m

val fetch_topic_offsets : bytes -> z -> (z * z) list m

type fetch_partition = { fq_topic : bytes; fq_partition : z; fq_offset : 
                         z; fq_max_bytes : z }

val fhost_add :
  (bytes * fetch_tps) list -> bytes -> bytes -> z -> z -> z ->
  (bytes * fetch_tps) list

val fetch_reqs : client -> fetch_partition list -> (bytes * fetch_tps) list

val order_fetch : (bytes * z list) list -> fetch_tps -> fetch_tps

val decode_depth : nat

val fetch_exchange :
  z -> (bytes * fetch_tps) list -> fetch_resp list -> fetch_resp list m

val fetch_messages : fetch_partition list -> fetch_resp list m

type produce_message = { pq_topic : bytes; pq_partition : z;
                         pq_key : bytes option; pq_value : bytes option }

val phost_add :
  (bytes * produce_tps) list -> bytes -> bytes -> z -> pmsg ->
  (bytes * produce_tps) list

val produce_reqs :
  cstate -> produce_message list -> (bytes * produce_tps) list ->
  (bytes * produce_tps) list option

type confirm = bytes * (z * (z, z) sum) list

val produce_exchange :
  z -> z -> z -> (bytes * produce_tps) list -> confirm list -> confirm list m

val internal_produce_messages :
  z -> z -> produce_message list -> confirm list m

val produce_messages : z -> (z * z) -> produce_message list -> confirm list m

val group_lookup_attempt : bytes res -> coordinator_resp m

val group_lookup_loop : nat -> bytes -> bytes res -> z -> bytes m

val get_group_coordinator : bytes -> bytes m

type scan =
| ScanOk
| ScanRetry of z * bool
| ScanFatal of z

val commit_scan_parts : (z * z) list -> scan

val commit_scan : (bytes * (z * z) list) list -> scan

val commit_loop : nat -> bytes -> bytes res -> z -> unit m

val commit_version : z -> z

val fetch_version : z -> z

type commit_offset = { co_topic : bytes; co_partition : z; co_offset : z }

val commit_tps :
  cstate -> commit_offset list -> (bytes * (z * z) list) list ->
  (bytes * (z * z) list) list option

val commit_offsets : bytes -> commit_offset list -> unit m

type gscan =
| GOk of (z * z) list
| GRetry of z * bool
| GFatal of z

val group_scan_parts : offset_fetch_part list -> (z * z) list -> gscan

val map_insert : (bytes * 'a1) list -> bytes -> 'a1 -> (bytes * 'a1) list

val group_scan :
  (bytes * offset_fetch_part list) list -> (bytes * (z * z) list) list ->
  (((bytes * (z * z) list) list, z * bool) sum, z) sum

val group_fetch_loop :
  nat -> bytes -> bytes res -> z -> (bytes * (z * z) list) list m

val group_fetch_tps :
  cstate -> (bytes * z) list -> (bytes * z list) list -> (bytes * z list)
  list option

val fetch_group_offsets :
  bytes -> (bytes * z) list -> (bytes * (z * z) list) list m

val iota_z : nat -> z -> z list

val fetch_group_topic_offset : bytes -> bytes -> (z * z) list m

val m32 : z -> z

val p1 : z

val p2 : z

val p3 : z

val p4 : z

val p5 : z

val rotl : z -> z -> z

val le32 : byte -> byte -> byte -> byte -> z

val round : z -> z -> z

val stripes :
  nat -> bytes -> (((z * z) * z) * z) -> (((z * z) * z) * z) * bytes

val tail4 : nat -> bytes -> z -> z * bytes

val tail1 : bytes -> z -> z

val avalanche : z -> z

val xxh32 : z -> bytes -> z

type record = { r_topic : bytes; r_partition : z; r_key : bytes;
                r_value : bytes }

type pparts = { available_ids : z list; num_all : z }

type producer = { p_client : client; p_parts : (bytes * pparts) list;
                  p_cntr : z; p_ack_timeout : z; p_acks : z }

val producer_with_client : producer -> client -> producer

val producer_set_cntr : producer -> z -> producer

val to_option : bytes -> bytes option

val partition :
  (bytes * pparts) list -> z -> bytes -> z -> bytes option -> z * z

val producer_state : cstate -> (bytes * pparts) list

val send_all_reqs :
  cstate -> (bytes * pparts) list -> z -> record list ->
  (bytes * produce_tps) list -> (bytes * produce_tps) list option * z

val producer_send_all : producer -> record list -> (confirm list * producer) m

val cntr_after : producer -> client -> record list -> z

val producer_send : producer -> record -> producer m

type pbuilder_call =
| PWithCompression of z
| PWithAckTimeout of (z * z)
| PWithIdle of (z * z)
| PWithAcks of z
| PWithClientId of bytes
| PWithPartitioner

type pbuilder = { pb_compression : z; pb_ack_timeout : (z * z);
                  pb_idle : (z * z); pb_acks : z; pb_client_id : bytes option }

val millis_dur : z -> z * z

val pbuilder_new : (bytes list, client) sum -> pbuilder

val pbuilder_apply : pbuilder -> pbuilder_call -> pbuilder

val cfg_set_producer : config -> pbuilder -> config

val producer_create :
  (bytes list, client) sum -> pbuilder_call list -> producer m

type fallback =
| FbEarliest
| FbLatest
| FbByTime of z

val fallback_time : fallback -> z

type tpkey = z * z

val tpkey_eqb : tpkey -> tpkey -> bool

type consumer = { k_client : client; k_group : bytes; k_fallback : fallback;
                  k_retry_limit : z; k_assign : (bytes * z list) list;
                  k_fetch : (tpkey * (z * z)) list; k_retry : tpkey list;
                  k_consumed : (tpkey * (z * bool)) list }

val consumer_with_client : consumer -> client -> consumer

val consumer_with :
  consumer -> (tpkey * (z * z)) list -> tpkey list -> (tpkey * (z * bool))
  list -> consumer

val insert_z : z -> z list -> z list

val sort_dedup : z list -> z list

val insert_topic : (bytes * 'a1) -> (bytes * 'a1) list -> (bytes * 'a1) list

val from_map : (bytes * z list) list -> (bytes * z list) list

val bsearch : nat -> (bytes * 'a1) list -> bytes -> z -> z -> z option

val topic_ref : (bytes * 'a1) list -> bytes -> z option

val topic_name : consumer -> z -> bytes

val tk_get : tpkey -> (tpkey * 'a1) list -> 'a1 option

val tk_set : tpkey -> 'a1 -> (tpkey * 'a1) list -> (tpkey * 'a1) list

type cbuilder_call =
| CWithGroup of bytes
| CWithTopic of bytes
| CWithTopicPartitions of bytes * z list
| CWithFallback of fallback
| CWithMaxWait of (z * z)
| CWithMinBytes of z
| CWithMaxBytes of z
| CWithCrc of bool
| CWithStorage of z
| CWithRetryLimit of z
| CWithIdle of (z * z)
| CWithClientId of bytes

type cbuilder = { cb_group : bytes; cb_assign : (bytes * z list) list;
                  cb_fallback : fallback; cb_max_wait : (z * z);
                  cb_min_bytes : z; cb_max_bytes : z; cb_retry_limit : 
                  z; cb_crc : bool; cb_storage : z; cb_idle : (z * z);
                  cb_client_id : bytes option }

val millis_dur0 : z -> z * z

val default_fallback : fallback

val cbuilder_new : (bytes list, client) sum -> cbuilder

val cb_upd :
  cbuilder -> bytes -> (bytes * z list) list -> fallback -> (z * z) -> z -> z
  -> z -> bool -> z -> (z * z) -> bytes option -> cbuilder

val cbuilder_apply : cbuilder -> cbuilder_call -> cbuilder

val cfg_set_consumer : config -> cbuilder -> z -> config

val determine_partitions : cstate -> (bytes * z list) -> z list res

val subscriptions_of :
  cstate -> (bytes * z list) list -> (bytes * z list) list res

val i64_op : bool -> z -> z res

val i32_op : bool -> z -> z res

val consumed_parts :
  bool -> z -> (z * z) list -> (tpkey * (z * bool)) list ->
  (tpkey * (z * bool)) list res

val consumed_topics :
  bool -> (bytes * z list) list -> (bytes * (z * z) list) list ->
  (tpkey * (z * bool)) list -> (tpkey * (z * bool)) list res

val load_consumed_offsets :
  bytes -> (bytes * z list) list -> (bytes * z list) list ->
  (tpkey * (z * bool)) list m

val pidx : (z * z) list -> (z * z) list

val load_partition_offsets : bytes list -> z -> (bytes * (z * z) list) list m

val lookup_off : (bytes * (z * z) list) list -> bytes -> z -> z

val fallback_states :
  (bytes * z list) list -> (bytes * (z * z) list) list -> z -> (bytes * z
  list) list -> (tpkey * (z * z)) list -> (tpkey * (z * z)) list res

val start_offset : bool -> fallback -> (z * bool) option -> z -> z -> z res

val range_parts :
  bool -> fallback -> (tpkey * (z * bool)) list -> (bytes * (z * z) list)
  list -> (bytes * (z * z) list) list -> z -> bytes -> z -> z list ->
  (tpkey * (z * z)) list -> (tpkey * (z * z)) list res

val range_states :
  bool -> fallback -> (bytes * z list) list -> (tpkey * (z * bool)) list ->
  (bytes * (z * z) list) list -> (bytes * (z * z) list) list -> z ->
  (bytes * z list) list -> (tpkey * (z * z)) list -> (tpkey * (z * z)) list
  res

val load_fetch_states :
  fallback -> (bytes * z list) list -> (bytes * z list) list ->
  (tpkey * (z * bool)) list -> (tpkey * (z * z)) list m

val consumer_create :
  (bytes list, client) sum -> cbuilder_call list -> consumer m

type message_sets = { ms_responses : fetch_resp list; ms_empty : bool }

val iterate : message_sets -> ((bytes * z) * message list) list

val consumer_fetch : consumer -> ((z * fetch_resp list res) * consumer) m

val last_msg : message list -> message option

val first_part_error : fetch_part list -> z option

val first_error : fetch_resp list -> z option

type pstate = { ps_fetch : (tpkey * (z * z)) list; ps_retry : tpkey list;
                ps_empty : bool }

type pres =
| POk of pstate
| PErr of err * pstate
| PPanic of bytes

val process_partition :
  bool -> bool -> z -> z -> z -> z -> fetch_part -> pstate -> pres

val process_parts :
  bool -> bool -> z -> z -> z -> z -> fetch_part list -> pstate -> pres

val process_topics :
  bool -> bool -> z -> z -> z -> (bytes * z list) list -> fetch_topic list ->
  pstate -> pres

val process_fetch_responses :
  bool -> consumer -> z -> fetch_resp list -> message_sets res * consumer

val consumer_poll : consumer -> (message_sets res * consumer) m

val consumer_seek : consumer -> bytes -> z -> z -> consumer res

val consume_message : consumer -> bytes -> z -> z -> consumer res

val last_consumed_message : consumer -> bytes -> z -> z option

val take_entry :
  (bytes * z) -> ((bytes * z) * z) list ->
  (((bytes * z) * z) * ((bytes * z) * z) list) option

val reorder_entries :
  (bytes * z) list -> ((bytes * z) * z) list -> ((bytes * z) * z) list

val dirty_entries : consumer -> ((bytes * z) * z) list

val commit_entries : bool -> ((bytes * z) * z) list -> commit_offset list res

val commit_consumed : consumer -> consumer m

val subscriptions : consumer -> (bytes * z list) list

type obj =
| ONone
| OClient of client
| OProducer of producer
| OConsumer of consumer

val client_of : obj -> client option

val with_client : obj -> client -> obj

val time_of : val0 -> z

val opt_of : val0 -> bytes option

val dur_val : (z * z) -> val0

val millis_dur1 : z -> z * z

val config_view : config -> val0

val parts_view : cstate -> z list -> z -> val0 list

val topics_view : cstate -> val0

val po_val : (z * z) -> val0

val offsets_map_view : (bytes * (z * z) list) list -> val0

val msg_val : message -> val0

val responses_view : fetch_resp list -> val0

val confirms_view : confirm list -> val0

val messagesets_view : message_sets -> val0

type outcome = { o_result : val0; o_obj : obj; o_trace : ev_op list }

val run :
  obj -> client -> codecs -> ev_out list -> val0 -> 'a1 m -> ('a1 -> val0) ->
  ('a1 -> client -> obj) -> (client -> obj) -> outcome

val okv : val0 -> val0

val pure : obj -> val0 -> outcome

val ok_unit : val0

val set_cfg : obj -> (config -> config) -> outcome

val upd_cfg :
  config -> bytes -> z -> z -> z -> z -> bool -> z -> z -> (z * z) -> config

val fq_of : val0 -> fetch_partition

val pq_of : val0 -> produce_message

val co_of : val0 -> commit_offset

val rec_of : val0 -> record

val builder_call_of : val0 -> cbuilder_call

val pbuilder_call_of : val0 -> pbuilder_call

val keep_client : obj -> 'a1 -> client -> obj

val dispatch : obj -> val0 -> val0 -> val0 -> val0 -> outcome

val sp : byte

val pos_digits : nat -> z -> bytes -> bytes

val z_text : z -> bytes

val hexdigit : z -> byte

val hex_text : bytes -> bytes -> bytes

val val_text : val0 -> bytes -> bytes

val tokens : bytes -> bytes -> bytes list -> bytes list

val hexval : byte -> z

val unhex : bytes -> bytes

val undec : bytes -> z -> z

val z_of_text : bytes -> z

val is1 : bytes -> z -> bool

val parse_val : nat -> bytes list -> (val0 * bytes list) option

val parse_seq :
  nat -> bytes list -> val0 list -> z -> (val0 list * bytes list) option

val val_of_text : bytes -> val0 option

val step : obj -> bytes -> obj * bytes
