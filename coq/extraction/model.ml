
(** val negb : bool -> bool **)

let negb = function
| true -> false
| false -> true

type nat =
| O
| S of nat

(** val option_map : ('a1 -> 'a2) -> 'a1 option -> 'a2 option **)

let option_map f = function
| Some a -> Some (f a)
| None -> None

type ('a, 'b) sum =
| Inl of 'a
| Inr of 'b

(** val fst : ('a1 * 'a2) -> 'a1 **)

let fst = function
| (x, _) -> x

(** val snd : ('a1 * 'a2) -> 'a2 **)

let snd = function
| (_, y) -> y

(** val length : 'a1 list -> nat **)

let rec length = function
| [] -> O
| _ :: l' -> S (length l')

(** val app : 'a1 list -> 'a1 list -> 'a1 list **)

let rec app l m0 =
  match l with
  | [] -> m0
  | a :: l1 -> a :: (app l1 m0)

type comparison =
| Eq
| Lt
| Gt

(** val compOpp : comparison -> comparison **)

let compOpp = function
| Eq -> Eq
| Lt -> Gt
| Gt -> Lt

module Coq__1 = struct
 (** val add : nat -> nat -> nat **)
 let rec add n0 m0 =
   match n0 with
   | O -> m0
   | S p -> S (add p m0)
end
include Coq__1

(** val sub : nat -> nat -> nat **)

let rec sub n0 m0 =
  match n0 with
  | O -> n0
  | S k -> (match m0 with
            | O -> n0
            | S l -> sub k l)

type byte =
| X00
| X01
| X02
| X03
| X04
| X05
| X06
| X07
| X08
| X09
| X0a
| X0b
| X0c
| X0d
| X0e
| X0f
| X10
| X11
| X12
| X13
| X14
| X15
| X16
| X17
| X18
| X19
| X1a
| X1b
| X1c
| X1d
| X1e
| X1f
| X20
| X21
| X22
| X23
| X24
| X25
| X26
| X27
| X28
| X29
| X2a
| X2b
| X2c
| X2d
| X2e
| X2f
| X30
| X31
| X32
| X33
| X34
| X35
| X36
| X37
| X38
| X39
| X3a
| X3b
| X3c
| X3d
| X3e
| X3f
| X40
| X41
| X42
| X43
| X44
| X45
| X46
| X47
| X48
| X49
| X4a
| X4b
| X4c
| X4d
| X4e
| X4f
| X50
| X51
| X52
| X53
| X54
| X55
| X56
| X57
| X58
| X59
| X5a
| X5b
| X5c
| X5d
| X5e
| X5f
| X60
| X61
| X62
| X63
| X64
| X65
| X66
| X67
| X68
| X69
| X6a
| X6b
| X6c
| X6d
| X6e
| X6f
| X70
| X71
| X72
| X73
| X74
| X75
| X76
| X77
| X78
| X79
| X7a
| X7b
| X7c
| X7d
| X7e
| X7f
| X80
| X81
| X82
| X83
| X84
| X85
| X86
| X87
| X88
| X89
| X8a
| X8b
| X8c
| X8d
| X8e
| X8f
| X90
| X91
| X92
| X93
| X94
| X95
| X96
| X97
| X98
| X99
| X9a
| X9b
| X9c
| X9d
| X9e
| X9f
| Xa0
| Xa1
| Xa2
| Xa3
| Xa4
| Xa5
| Xa6
| Xa7
| Xa8
| Xa9
| Xaa
| Xab
| Xac
| Xad
| Xae
| Xaf
| Xb0
| Xb1
| Xb2
| Xb3
| Xb4
| Xb5
| Xb6
| Xb7
| Xb8
| Xb9
| Xba
| Xbb
| Xbc
| Xbd
| Xbe
| Xbf
| Xc0
| Xc1
| Xc2
| Xc3
| Xc4
| Xc5
| Xc6
| Xc7
| Xc8
| Xc9
| Xca
| Xcb
| Xcc
| Xcd
| Xce
| Xcf
| Xd0
| Xd1
| Xd2
| Xd3
| Xd4
| Xd5
| Xd6
| Xd7
| Xd8
| Xd9
| Xda
| Xdb
| Xdc
| Xdd
| Xde
| Xdf
| Xe0
| Xe1
| Xe2
| Xe3
| Xe4
| Xe5
| Xe6
| Xe7
| Xe8
| Xe9
| Xea
| Xeb
| Xec
| Xed
| Xee
| Xef
| Xf0
| Xf1
| Xf2
| Xf3
| Xf4
| Xf5
| Xf6
| Xf7
| Xf8
| Xf9
| Xfa
| Xfb
| Xfc
| Xfd
| Xfe
| Xff

(** val of_bits :
    (bool * (bool * (bool * (bool * (bool * (bool * (bool * bool))))))) ->
    byte **)

let of_bits = function
| (b0, p) ->
  if b0
  then let (b1, p0) = p in
       if b1
       then let (b2, p6) = p0 in
            if b2
            then let (b3, p7) = p6 in
                 if b3
                 then let (b4, p8) = p7 in
                      if b4
                      then let (b5, p9) = p8 in
                           if b5
                           then let (b6, b7) = p9 in
                                if b6
                                then if b7 then Xff else X7f
                                else if b7 then Xbf else X3f
                           else let (b6, b7) = p9 in
                                if b6
                                then if b7 then Xdf else X5f
                                else if b7 then X9f else X1f
                      else let (b5, p9) = p8 in
                           if b5
                           then let (b6, b7) = p9 in
                                if b6
                                then if b7 then Xef else X6f
                                else if b7 then Xaf else X2f
                           else let (b6, b7) = p9 in
                                if b6
                                then if b7 then Xcf else X4f
                                else if b7 then X8f else X0f
                 else let (b4, p8) = p7 in
                      if b4
                      then let (b5, p9) = p8 in
                           if b5
                           then let (b6, b7) = p9 in
                                if b6
                                then if b7 then Xf7 else X77
                                else if b7 then Xb7 else X37
                           else let (b6, b7) = p9 in
                                if b6
                                then if b7 then Xd7 else X57
                                else if b7 then X97 else X17
                      else let (b5, p9) = p8 in
                           if b5
                           then let (b6, b7) = p9 in
                                if b6
                                then if b7 then Xe7 else X67
                                else if b7 then Xa7 else X27
                           else let (b6, b7) = p9 in
                                if b6
                                then if b7 then Xc7 else X47
                                else if b7 then X87 else X07
            else let (b3, p7) = p6 in
                 if b3
                 then let (b4, p8) = p7 in
                      if b4
                      then let (b5, p9) = p8 in
                           if b5
                           then let (b6, b7) = p9 in
                                if b6
                                then if b7 then Xfb else X7b
                                else if b7 then Xbb else X3b
                           else let (b6, b7) = p9 in
                                if b6
                                then if b7 then Xdb else X5b
                                else if b7 then X9b else X1b
                      else let (b5, p9) = p8 in
                           if b5
                           then let (b6, b7) = p9 in
                                if b6
                                then if b7 then Xeb else X6b
                                else if b7 then Xab else X2b
                           else let (b6, b7) = p9 in
                                if b6
                                then if b7 then Xcb else X4b
                                else if b7 then X8b else X0b
                 else let (b4, p8) = p7 in
                      if b4
                      then let (b5, p9) = p8 in
                           if b5
                           then let (b6, b7) = p9 in
                                if b6
                                then if b7 then Xf3 else X73
                                else if b7 then Xb3 else X33
                           else let (b6, b7) = p9 in
                                if b6
                                then if b7 then Xd3 else X53
                                else if b7 then X93 else X13
                      else let (b5, p9) = p8 in
                           if b5
                           then let (b6, b7) = p9 in
                                if b6
                                then if b7 then Xe3 else X63
                                else if b7 then Xa3 else X23
                           else let (b6, b7) = p9 in
                                if b6
                                then if b7 then Xc3 else X43
                                else if b7 then X83 else X03
       else let (b2, p6) = p0 in
            if b2
            then let (b3, p7) = p6 in
                 if b3
                 then let (b4, p8) = p7 in
                      if b4
                      then let (b5, p9) = p8 in
                           if b5
                           then let (b6, b7) = p9 in
                                if b6
                                then if b7 then Xfd else X7d
                                else if b7 then Xbd else X3d
                           else let (b6, b7) = p9 in
                                if b6
                                then if b7 then Xdd else X5d
                                else if b7 then X9d else X1d
                      else let (b5, p9) = p8 in
                           if b5
                           then let (b6, b7) = p9 in
                                if b6
                                then if b7 then Xed else X6d
                                else if b7 then Xad else X2d
                           else let (b6, b7) = p9 in
                                if b6
                                then if b7 then Xcd else X4d
                                else if b7 then X8d else X0d
                 else let (b4, p8) = p7 in
                      if b4
                      then let (b5, p9) = p8 in
                           if b5
                           then let (b6, b7) = p9 in
                                if b6
                                then if b7 then Xf5 else X75
                                else if b7 then Xb5 else X35
                           else let (b6, b7) = p9 in
                                if b6
                                then if b7 then Xd5 else X55
                                else if b7 then X95 else X15
                      else let (b5, p9) = p8 in
                           if b5
                           then let (b6, b7) = p9 in
                                if b6
                                then if b7 then Xe5 else X65
                                else if b7 then Xa5 else X25
                           else let (b6, b7) = p9 in
                                if b6
                                then if b7 then Xc5 else X45
                                else if b7 then X85 else X05
            else let (b3, p7) = p6 in
                 if b3
                 then let (b4, p8) = p7 in
                      if b4
                      then let (b5, p9) = p8 in
                           if b5
                           then let (b6, b7) = p9 in
                                if b6
                                then if b7 then Xf9 else X79
                                else if b7 then Xb9 else X39
                           else let (b6, b7) = p9 in
                                if b6
                                then if b7 then Xd9 else X59
                                else if b7 then X99 else X19
                      else let (b5, p9) = p8 in
                           if b5
                           then let (b6, b7) = p9 in
                                if b6
                                then if b7 then Xe9 else X69
                                else if b7 then Xa9 else X29
                           else let (b6, b7) = p9 in
                                if b6
                                then if b7 then Xc9 else X49
                                else if b7 then X89 else X09
                 else let (b4, p8) = p7 in
                      if b4
                      then let (b5, p9) = p8 in
                           if b5
                           then let (b6, b7) = p9 in
                                if b6
                                then if b7 then Xf1 else X71
                                else if b7 then Xb1 else X31
                           else let (b6, b7) = p9 in
                                if b6
                                then if b7 then Xd1 else X51
                                else if b7 then X91 else X11
                      else let (b5, p9) = p8 in
                           if b5
                           then let (b6, b7) = p9 in
                                if b6
                                then if b7 then Xe1 else X61
                                else if b7 then Xa1 else X21
                           else let (b6, b7) = p9 in
                                if b6
                                then if b7 then Xc1 else X41
                                else if b7 then X81 else X01
  else let (b1, p0) = p in
       if b1
       then let (b2, p6) = p0 in
            if b2
            then let (b3, p7) = p6 in
                 if b3
                 then let (b4, p8) = p7 in
                      if b4
                      then let (b5, p9) = p8 in
                           if b5
                           then let (b6, b7) = p9 in
                                if b6
                                then if b7 then Xfe else X7e
                                else if b7 then Xbe else X3e
                           else let (b6, b7) = p9 in
                                if b6
                                then if b7 then Xde else X5e
                                else if b7 then X9e else X1e
                      else let (b5, p9) = p8 in
                           if b5
                           then let (b6, b7) = p9 in
                                if b6
                                then if b7 then Xee else X6e
                                else if b7 then Xae else X2e
                           else let (b6, b7) = p9 in
                                if b6
                                then if b7 then Xce else X4e
                                else if b7 then X8e else X0e
                 else let (b4, p8) = p7 in
                      if b4
                      then let (b5, p9) = p8 in
                           if b5
                           then let (b6, b7) = p9 in
                                if b6
                                then if b7 then Xf6 else X76
                                else if b7 then Xb6 else X36
                           else let (b6, b7) = p9 in
                                if b6
                                then if b7 then Xd6 else X56
                                else if b7 then X96 else X16
                      else let (b5, p9) = p8 in
                           if b5
                           then let (b6, b7) = p9 in
                                if b6
                                then if b7 then Xe6 else X66
                                else if b7 then Xa6 else X26
                           else let (b6, b7) = p9 in
                                if b6
                                then if b7 then Xc6 else X46
                                else if b7 then X86 else X06
            else let (b3, p7) = p6 in
                 if b3
                 then let (b4, p8) = p7 in
                      if b4
                      then let (b5, p9) = p8 in
                           if b5
                           then let (b6, b7) = p9 in
                                if b6
                                then if b7 then Xfa else X7a
                                else if b7 then Xba else X3a
                           else let (b6, b7) = p9 in
                                if b6
                                then if b7 then Xda else X5a
                                else if b7 then X9a else X1a
                      else let (b5, p9) = p8 in
                           if b5
                           then let (b6, b7) = p9 in
                                if b6
                                then if b7 then Xea else X6a
                                else if b7 then Xaa else X2a
                           else let (b6, b7) = p9 in
                                if b6
                                then if b7 then Xca else X4a
                                else if b7 then X8a else X0a
                 else let (b4, p8) = p7 in
                      if b4
                      then let (b5, p9) = p8 in
                           if b5
                           then let (b6, b7) = p9 in
                                if b6
                                then if b7 then Xf2 else X72
                                else if b7 then Xb2 else X32
                           else let (b6, b7) = p9 in
                                if b6
                                then if b7 then Xd2 else X52
                                else if b7 then X92 else X12
                      else let (b5, p9) = p8 in
                           if b5
                           then let (b6, b7) = p9 in
                                if b6
                                then if b7 then Xe2 else X62
                                else if b7 then Xa2 else X22
                           else let (b6, b7) = p9 in
                                if b6
                                then if b7 then Xc2 else X42
                                else if b7 then X82 else X02
       else let (b2, p6) = p0 in
            if b2
            then let (b3, p7) = p6 in
                 if b3
                 then let (b4, p8) = p7 in
                      if b4
                      then let (b5, p9) = p8 in
                           if b5
                           then let (b6, b7) = p9 in
                                if b6
                                then if b7 then Xfc else X7c
                                else if b7 then Xbc else X3c
                           else let (b6, b7) = p9 in
                                if b6
                                then if b7 then Xdc else X5c
                                else if b7 then X9c else X1c
                      else let (b5, p9) = p8 in
                           if b5
                           then let (b6, b7) = p9 in
                                if b6
                                then if b7 then Xec else X6c
                                else if b7 then Xac else X2c
                           else let (b6, b7) = p9 in
                                if b6
                                then if b7 then Xcc else X4c
                                else if b7 then X8c else X0c
                 else let (b4, p8) = p7 in
                      if b4
                      then let (b5, p9) = p8 in
                           if b5
                           then let (b6, b7) = p9 in
                                if b6
                                then if b7 then Xf4 else X74
                                else if b7 then Xb4 else X34
                           else let (b6, b7) = p9 in
                                if b6
                                then if b7 then Xd4 else X54
                                else if b7 then X94 else X14
                      else let (b5, p9) = p8 in
                           if b5
                           then let (b6, b7) = p9 in
                                if b6
                                then if b7 then Xe4 else X64
                                else if b7 then Xa4 else X24
                           else let (b6, b7) = p9 in
                                if b6
                                then if b7 then Xc4 else X44
                                else if b7 then X84 else X04
            else let (b3, p7) = p6 in
                 if b3
                 then let (b4, p8) = p7 in
                      if b4
                      then let (b5, p9) = p8 in
                           if b5
                           then let (b6, b7) = p9 in
                                if b6
                                then if b7 then Xf8 else X78
                                else if b7 then Xb8 else X38
                           else let (b6, b7) = p9 in
                                if b6
                                then if b7 then Xd8 else X58
                                else if b7 then X98 else X18
                      else let (b5, p9) = p8 in
                           if b5
                           then let (b6, b7) = p9 in
                                if b6
                                then if b7 then Xe8 else X68
                                else if b7 then Xa8 else X28
                           else let (b6, b7) = p9 in
                                if b6
                                then if b7 then Xc8 else X48
                                else if b7 then X88 else X08
                 else let (b4, p8) = p7 in
                      if b4
                      then let (b5, p9) = p8 in
                           if b5
                           then let (b6, b7) = p9 in
                                if b6
                                then if b7 then Xf0 else X70
                                else if b7 then Xb0 else X30
                           else let (b6, b7) = p9 in
                                if b6
                                then if b7 then Xd0 else X50
                                else if b7 then X90 else X10
                      else let (b5, p9) = p8 in
                           if b5
                           then let (b6, b7) = p9 in
                                if b6
                                then if b7 then Xe0 else X60
                                else if b7 then Xa0 else X20
                           else let (b6, b7) = p9 in
                                if b6
                                then if b7 then Xc0 else X40
                                else if b7 then X80 else X00

(** val to_bits :
    byte -> bool * (bool * (bool * (bool * (bool * (bool * (bool * bool)))))) **)

let to_bits = function
| X00 -> (false, (false, (false, (false, (false, (false, (false, false)))))))
| X01 -> (true, (false, (false, (false, (false, (false, (false, false)))))))
| X02 -> (false, (true, (false, (false, (false, (false, (false, false)))))))
| X03 -> (true, (true, (false, (false, (false, (false, (false, false)))))))
| X04 -> (false, (false, (true, (false, (false, (false, (false, false)))))))
| X05 -> (true, (false, (true, (false, (false, (false, (false, false)))))))
| X06 -> (false, (true, (true, (false, (false, (false, (false, false)))))))
| X07 -> (true, (true, (true, (false, (false, (false, (false, false)))))))
| X08 -> (false, (false, (false, (true, (false, (false, (false, false)))))))
| X09 -> (true, (false, (false, (true, (false, (false, (false, false)))))))
| X0a -> (false, (true, (false, (true, (false, (false, (false, false)))))))
| X0b -> (true, (true, (false, (true, (false, (false, (false, false)))))))
| X0c -> (false, (false, (true, (true, (false, (false, (false, false)))))))
| X0d -> (true, (false, (true, (true, (false, (false, (false, false)))))))
| X0e -> (false, (true, (true, (true, (false, (false, (false, false)))))))
| X0f -> (true, (true, (true, (true, (false, (false, (false, false)))))))
| X10 -> (false, (false, (false, (false, (true, (false, (false, false)))))))
| X11 -> (true, (false, (false, (false, (true, (false, (false, false)))))))
| X12 -> (false, (true, (false, (false, (true, (false, (false, false)))))))
| X13 -> (true, (true, (false, (false, (true, (false, (false, false)))))))
| X14 -> (false, (false, (true, (false, (true, (false, (false, false)))))))
| X15 -> (true, (false, (true, (false, (true, (false, (false, false)))))))
| X16 -> (false, (true, (true, (false, (true, (false, (false, false)))))))
| X17 -> (true, (true, (true, (false, (true, (false, (false, false)))))))
| X18 -> (false, (false, (false, (true, (true, (false, (false, false)))))))
| X19 -> (true, (false, (false, (true, (true, (false, (false, false)))))))
| X1a -> (false, (true, (false, (true, (true, (false, (false, false)))))))
| X1b -> (true, (true, (false, (true, (true, (false, (false, false)))))))
| X1c -> (false, (false, (true, (true, (true, (false, (false, false)))))))
| X1d -> (true, (false, (true, (true, (true, (false, (false, false)))))))
| X1e -> (false, (true, (true, (true, (true, (false, (false, false)))))))
| X1f -> (true, (true, (true, (true, (true, (false, (false, false)))))))
| X20 -> (false, (false, (false, (false, (false, (true, (false, false)))))))
| X21 -> (true, (false, (false, (false, (false, (true, (false, false)))))))
| X22 -> (false, (true, (false, (false, (false, (true, (false, false)))))))
| X23 -> (true, (true, (false, (false, (false, (true, (false, false)))))))
| X24 -> (false, (false, (true, (false, (false, (true, (false, false)))))))
| X25 -> (true, (false, (true, (false, (false, (true, (false, false)))))))
| X26 -> (false, (true, (true, (false, (false, (true, (false, false)))))))
| X27 -> (true, (true, (true, (false, (false, (true, (false, false)))))))
| X28 -> (false, (false, (false, (true, (false, (true, (false, false)))))))
| X29 -> (true, (false, (false, (true, (false, (true, (false, false)))))))
| X2a -> (false, (true, (false, (true, (false, (true, (false, false)))))))
| X2b -> (true, (true, (false, (true, (false, (true, (false, false)))))))
| X2c -> (false, (false, (true, (true, (false, (true, (false, false)))))))
| X2d -> (true, (false, (true, (true, (false, (true, (false, false)))))))
| X2e -> (false, (true, (true, (true, (false, (true, (false, false)))))))
| X2f -> (true, (true, (true, (true, (false, (true, (false, false)))))))
| X30 -> (false, (false, (false, (false, (true, (true, (false, false)))))))
| X31 -> (true, (false, (false, (false, (true, (true, (false, false)))))))
| X32 -> (false, (true, (false, (false, (true, (true, (false, false)))))))
| X33 -> (true, (true, (false, (false, (true, (true, (false, false)))))))
| X34 -> (false, (false, (true, (false, (true, (true, (false, false)))))))
| X35 -> (true, (false, (true, (false, (true, (true, (false, false)))))))
| X36 -> (false, (true, (true, (false, (true, (true, (false, false)))))))
| X37 -> (true, (true, (true, (false, (true, (true, (false, false)))))))
| X38 -> (false, (false, (false, (true, (true, (true, (false, false)))))))
| X39 -> (true, (false, (false, (true, (true, (true, (false, false)))))))
| X3a -> (false, (true, (false, (true, (true, (true, (false, false)))))))
| X3b -> (true, (true, (false, (true, (true, (true, (false, false)))))))
| X3c -> (false, (false, (true, (true, (true, (true, (false, false)))))))
| X3d -> (true, (false, (true, (true, (true, (true, (false, false)))))))
| X3e -> (false, (true, (true, (true, (true, (true, (false, false)))))))
| X3f -> (true, (true, (true, (true, (true, (true, (false, false)))))))
| X40 -> (false, (false, (false, (false, (false, (false, (true, false)))))))
| X41 -> (true, (false, (false, (false, (false, (false, (true, false)))))))
| X42 -> (false, (true, (false, (false, (false, (false, (true, false)))))))
| X43 -> (true, (true, (false, (false, (false, (false, (true, false)))))))
| X44 -> (false, (false, (true, (false, (false, (false, (true, false)))))))
| X45 -> (true, (false, (true, (false, (false, (false, (true, false)))))))
| X46 -> (false, (true, (true, (false, (false, (false, (true, false)))))))
| X47 -> (true, (true, (true, (false, (false, (false, (true, false)))))))
| X48 -> (false, (false, (false, (true, (false, (false, (true, false)))))))
| X49 -> (true, (false, (false, (true, (false, (false, (true, false)))))))
| X4a -> (false, (true, (false, (true, (false, (false, (true, false)))))))
| X4b -> (true, (true, (false, (true, (false, (false, (true, false)))))))
| X4c -> (false, (false, (true, (true, (false, (false, (true, false)))))))
| X4d -> (true, (false, (true, (true, (false, (false, (true, false)))))))
| X4e -> (false, (true, (true, (true, (false, (false, (true, false)))))))
| X4f -> (true, (true, (true, (true, (false, (false, (true, false)))))))
| X50 -> (false, (false, (false, (false, (true, (false, (true, false)))))))
| X51 -> (true, (false, (false, (false, (true, (false, (true, false)))))))
| X52 -> (false, (true, (false, (false, (true, (false, (true, false)))))))
| X53 -> (true, (true, (false, (false, (true, (false, (true, false)))))))
| X54 -> (false, (false, (true, (false, (true, (false, (true, false)))))))
| X55 -> (true, (false, (true, (false, (true, (false, (true, false)))))))
| X56 -> (false, (true, (true, (false, (true, (false, (true, false)))))))
| X57 -> (true, (true, (true, (false, (true, (false, (true, false)))))))
| X58 -> (false, (false, (false, (true, (true, (false, (true, false)))))))
| X59 -> (true, (false, (false, (true, (true, (false, (true, false)))))))
| X5a -> (false, (true, (false, (true, (true, (false, (true, false)))))))
| X5b -> (true, (true, (false, (true, (true, (false, (true, false)))))))
| X5c -> (false, (false, (true, (true, (true, (false, (true, false)))))))
| X5d -> (true, (false, (true, (true, (true, (false, (true, false)))))))
| X5e -> (false, (true, (true, (true, (true, (false, (true, false)))))))
| X5f -> (true, (true, (true, (true, (true, (false, (true, false)))))))
| X60 -> (false, (false, (false, (false, (false, (true, (true, false)))))))
| X61 -> (true, (false, (false, (false, (false, (true, (true, false)))))))
| X62 -> (false, (true, (false, (false, (false, (true, (true, false)))))))
| X63 -> (true, (true, (false, (false, (false, (true, (true, false)))))))
| X64 -> (false, (false, (true, (false, (false, (true, (true, false)))))))
| X65 -> (true, (false, (true, (false, (false, (true, (true, false)))))))
| X66 -> (false, (true, (true, (false, (false, (true, (true, false)))))))
| X67 -> (true, (true, (true, (false, (false, (true, (true, false)))))))
| X68 -> (false, (false, (false, (true, (false, (true, (true, false)))))))
| X69 -> (true, (false, (false, (true, (false, (true, (true, false)))))))
| X6a -> (false, (true, (false, (true, (false, (true, (true, false)))))))
| X6b -> (true, (true, (false, (true, (false, (true, (true, false)))))))
| X6c -> (false, (false, (true, (true, (false, (true, (true, false)))))))
| X6d -> (true, (false, (true, (true, (false, (true, (true, false)))))))
| X6e -> (false, (true, (true, (true, (false, (true, (true, false)))))))
| X6f -> (true, (true, (true, (true, (false, (true, (true, false)))))))
| X70 -> (false, (false, (false, (false, (true, (true, (true, false)))))))
| X71 -> (true, (false, (false, (false, (true, (true, (true, false)))))))
| X72 -> (false, (true, (false, (false, (true, (true, (true, false)))))))
| X73 -> (true, (true, (false, (false, (true, (true, (true, false)))))))
| X74 -> (false, (false, (true, (false, (true, (true, (true, false)))))))
| X75 -> (true, (false, (true, (false, (true, (true, (true, false)))))))
| X76 -> (false, (true, (true, (false, (true, (true, (true, false)))))))
| X77 -> (true, (true, (true, (false, (true, (true, (true, false)))))))
| X78 -> (false, (false, (false, (true, (true, (true, (true, false)))))))
| X79 -> (true, (false, (false, (true, (true, (true, (true, false)))))))
| X7a -> (false, (true, (false, (true, (true, (true, (true, false)))))))
| X7b -> (true, (true, (false, (true, (true, (true, (true, false)))))))
| X7c -> (false, (false, (true, (true, (true, (true, (true, false)))))))
| X7d -> (true, (false, (true, (true, (true, (true, (true, false)))))))
| X7e -> (false, (true, (true, (true, (true, (true, (true, false)))))))
| X7f -> (true, (true, (true, (true, (true, (true, (true, false)))))))
| X80 -> (false, (false, (false, (false, (false, (false, (false, true)))))))
| X81 -> (true, (false, (false, (false, (false, (false, (false, true)))))))
| X82 -> (false, (true, (false, (false, (false, (false, (false, true)))))))
| X83 -> (true, (true, (false, (false, (false, (false, (false, true)))))))
| X84 -> (false, (false, (true, (false, (false, (false, (false, true)))))))
| X85 -> (true, (false, (true, (false, (false, (false, (false, true)))))))
| X86 -> (false, (true, (true, (false, (false, (false, (false, true)))))))
| X87 -> (true, (true, (true, (false, (false, (false, (false, true)))))))
| X88 -> (false, (false, (false, (true, (false, (false, (false, true)))))))
| X89 -> (true, (false, (false, (true, (false, (false, (false, true)))))))
| X8a -> (false, (true, (false, (true, (false, (false, (false, true)))))))
| X8b -> (true, (true, (false, (true, (false, (false, (false, true)))))))
| X8c -> (false, (false, (true, (true, (false, (false, (false, true)))))))
| X8d -> (true, (false, (true, (true, (false, (false, (false, true)))))))
| X8e -> (false, (true, (true, (true, (false, (false, (false, true)))))))
| X8f -> (true, (true, (true, (true, (false, (false, (false, true)))))))
| X90 -> (false, (false, (false, (false, (true, (false, (false, true)))))))
| X91 -> (true, (false, (false, (false, (true, (false, (false, true)))))))
| X92 -> (false, (true, (false, (false, (true, (false, (false, true)))))))
| X93 -> (true, (true, (false, (false, (true, (false, (false, true)))))))
| X94 -> (false, (false, (true, (false, (true, (false, (false, true)))))))
| X95 -> (true, (false, (true, (false, (true, (false, (false, true)))))))
| X96 -> (false, (true, (true, (false, (true, (false, (false, true)))))))
| X97 -> (true, (true, (true, (false, (true, (false, (false, true)))))))
| X98 -> (false, (false, (false, (true, (true, (false, (false, true)))))))
| X99 -> (true, (false, (false, (true, (true, (false, (false, true)))))))
| X9a -> (false, (true, (false, (true, (true, (false, (false, true)))))))
| X9b -> (true, (true, (false, (true, (true, (false, (false, true)))))))
| X9c -> (false, (false, (true, (true, (true, (false, (false, true)))))))
| X9d -> (true, (false, (true, (true, (true, (false, (false, true)))))))
| X9e -> (false, (true, (true, (true, (true, (false, (false, true)))))))
| X9f -> (true, (true, (true, (true, (true, (false, (false, true)))))))
| Xa0 -> (false, (false, (false, (false, (false, (true, (false, true)))))))
| Xa1 -> (true, (false, (false, (false, (false, (true, (false, true)))))))
| Xa2 -> (false, (true, (false, (false, (false, (true, (false, true)))))))
| Xa3 -> (true, (true, (false, (false, (false, (true, (false, true)))))))
| Xa4 -> (false, (false, (true, (false, (false, (true, (false, true)))))))
| Xa5 -> (true, (false, (true, (false, (false, (true, (false, true)))))))
| Xa6 -> (false, (true, (true, (false, (false, (true, (false, true)))))))
| Xa7 -> (true, (true, (true, (false, (false, (true, (false, true)))))))
| Xa8 -> (false, (false, (false, (true, (false, (true, (false, true)))))))
| Xa9 -> (true, (false, (false, (true, (false, (true, (false, true)))))))
| Xaa -> (false, (true, (false, (true, (false, (true, (false, true)))))))
| Xab -> (true, (true, (false, (true, (false, (true, (false, true)))))))
| Xac -> (false, (false, (true, (true, (false, (true, (false, true)))))))
| Xad -> (true, (false, (true, (true, (false, (true, (false, true)))))))
| Xae -> (false, (true, (true, (true, (false, (true, (false, true)))))))
| Xaf -> (true, (true, (true, (true, (false, (true, (false, true)))))))
| Xb0 -> (false, (false, (false, (false, (true, (true, (false, true)))))))
| Xb1 -> (true, (false, (false, (false, (true, (true, (false, true)))))))
| Xb2 -> (false, (true, (false, (false, (true, (true, (false, true)))))))
| Xb3 -> (true, (true, (false, (false, (true, (true, (false, true)))))))
| Xb4 -> (false, (false, (true, (false, (true, (true, (false, true)))))))
| Xb5 -> (true, (false, (true, (false, (true, (true, (false, true)))))))
| Xb6 -> (false, (true, (true, (false, (true, (true, (false, true)))))))
| Xb7 -> (true, (true, (true, (false, (true, (true, (false, true)))))))
| Xb8 -> (false, (false, (false, (true, (true, (true, (false, true)))))))
| Xb9 -> (true, (false, (false, (true, (true, (true, (false, true)))))))
| Xba -> (false, (true, (false, (true, (true, (true, (false, true)))))))
| Xbb -> (true, (true, (false, (true, (true, (true, (false, true)))))))
| Xbc -> (false, (false, (true, (true, (true, (true, (false, true)))))))
| Xbd -> (true, (false, (true, (true, (true, (true, (false, true)))))))
| Xbe -> (false, (true, (true, (true, (true, (true, (false, true)))))))
| Xbf -> (true, (true, (true, (true, (true, (true, (false, true)))))))
| Xc0 -> (false, (false, (false, (false, (false, (false, (true, true)))))))
| Xc1 -> (true, (false, (false, (false, (false, (false, (true, true)))))))
| Xc2 -> (false, (true, (false, (false, (false, (false, (true, true)))))))
| Xc3 -> (true, (true, (false, (false, (false, (false, (true, true)))))))
| Xc4 -> (false, (false, (true, (false, (false, (false, (true, true)))))))
| Xc5 -> (true, (false, (true, (false, (false, (false, (true, true)))))))
| Xc6 -> (false, (true, (true, (false, (false, (false, (true, true)))))))
| Xc7 -> (true, (true, (true, (false, (false, (false, (true, true)))))))
| Xc8 -> (false, (false, (false, (true, (false, (false, (true, true)))))))
| Xc9 -> (true, (false, (false, (true, (false, (false, (true, true)))))))
| Xca -> (false, (true, (false, (true, (false, (false, (true, true)))))))
| Xcb -> (true, (true, (false, (true, (false, (false, (true, true)))))))
| Xcc -> (false, (false, (true, (true, (false, (false, (true, true)))))))
| Xcd -> (true, (false, (true, (true, (false, (false, (true, true)))))))
| Xce -> (false, (true, (true, (true, (false, (false, (true, true)))))))
| Xcf -> (true, (true, (true, (true, (false, (false, (true, true)))))))
| Xd0 -> (false, (false, (false, (false, (true, (false, (true, true)))))))
| Xd1 -> (true, (false, (false, (false, (true, (false, (true, true)))))))
| Xd2 -> (false, (true, (false, (false, (true, (false, (true, true)))))))
| Xd3 -> (true, (true, (false, (false, (true, (false, (true, true)))))))
| Xd4 -> (false, (false, (true, (false, (true, (false, (true, true)))))))
| Xd5 -> (true, (false, (true, (false, (true, (false, (true, true)))))))
| Xd6 -> (false, (true, (true, (false, (true, (false, (true, true)))))))
| Xd7 -> (true, (true, (true, (false, (true, (false, (true, true)))))))
| Xd8 -> (false, (false, (false, (true, (true, (false, (true, true)))))))
| Xd9 -> (true, (false, (false, (true, (true, (false, (true, true)))))))
| Xda -> (false, (true, (false, (true, (true, (false, (true, true)))))))
| Xdb -> (true, (true, (false, (true, (true, (false, (true, true)))))))
| Xdc -> (false, (false, (true, (true, (true, (false, (true, true)))))))
| Xdd -> (true, (false, (true, (true, (true, (false, (true, true)))))))
| Xde -> (false, (true, (true, (true, (true, (false, (true, true)))))))
| Xdf -> (true, (true, (true, (true, (true, (false, (true, true)))))))
| Xe0 -> (false, (false, (false, (false, (false, (true, (true, true)))))))
| Xe1 -> (true, (false, (false, (false, (false, (true, (true, true)))))))
| Xe2 -> (false, (true, (false, (false, (false, (true, (true, true)))))))
| Xe3 -> (true, (true, (false, (false, (false, (true, (true, true)))))))
| Xe4 -> (false, (false, (true, (false, (false, (true, (true, true)))))))
| Xe5 -> (true, (false, (true, (false, (false, (true, (true, true)))))))
| Xe6 -> (false, (true, (true, (false, (false, (true, (true, true)))))))
| Xe7 -> (true, (true, (true, (false, (false, (true, (true, true)))))))
| Xe8 -> (false, (false, (false, (true, (false, (true, (true, true)))))))
| Xe9 -> (true, (false, (false, (true, (false, (true, (true, true)))))))
| Xea -> (false, (true, (false, (true, (false, (true, (true, true)))))))
| Xeb -> (true, (true, (false, (true, (false, (true, (true, true)))))))
| Xec -> (false, (false, (true, (true, (false, (true, (true, true)))))))
| Xed -> (true, (false, (true, (true, (false, (true, (true, true)))))))
| Xee -> (false, (true, (true, (true, (false, (true, (true, true)))))))
| Xef -> (true, (true, (true, (true, (false, (true, (true, true)))))))
| Xf0 -> (false, (false, (false, (false, (true, (true, (true, true)))))))
| Xf1 -> (true, (false, (false, (false, (true, (true, (true, true)))))))
| Xf2 -> (false, (true, (false, (false, (true, (true, (true, true)))))))
| Xf3 -> (true, (true, (false, (false, (true, (true, (true, true)))))))
| Xf4 -> (false, (false, (true, (false, (true, (true, (true, true)))))))
| Xf5 -> (true, (false, (true, (false, (true, (true, (true, true)))))))
| Xf6 -> (false, (true, (true, (false, (true, (true, (true, true)))))))
| Xf7 -> (true, (true, (true, (false, (true, (true, (true, true)))))))
| Xf8 -> (false, (false, (false, (true, (true, (true, (true, true)))))))
| Xf9 -> (true, (false, (false, (true, (true, (true, (true, true)))))))
| Xfa -> (false, (true, (false, (true, (true, (true, (true, true)))))))
| Xfb -> (true, (true, (false, (true, (true, (true, (true, true)))))))
| Xfc -> (false, (false, (true, (true, (true, (true, (true, true)))))))
| Xfd -> (true, (false, (true, (true, (true, (true, (true, true)))))))
| Xfe -> (false, (true, (true, (true, (true, (true, (true, true)))))))
| Xff -> (true, (true, (true, (true, (true, (true, (true, true)))))))

(** val eqb : bool -> bool -> bool **)

let eqb b1 b2 =
  if b1 then b2 else if b2 then false else true

module Nat =
 struct
  (** val eqb : nat -> nat -> bool **)

  let rec eqb n0 m0 =
    match n0 with
    | O -> (match m0 with
            | O -> true
            | S _ -> false)
    | S n' -> (match m0 with
               | O -> false
               | S m' -> eqb n' m')

  (** val leb : nat -> nat -> bool **)

  let rec leb n0 m0 =
    match n0 with
    | O -> true
    | S n' -> (match m0 with
               | O -> false
               | S m' -> leb n' m')

  (** val ltb : nat -> nat -> bool **)

  let ltb n0 m0 =
    leb (S n0) m0
 end

(** val nth : nat -> 'a1 list -> 'a1 -> 'a1 **)

let rec nth n0 l default =
  match n0 with
  | O -> (match l with
          | [] -> default
          | x :: _ -> x)
  | S m0 -> (match l with
             | [] -> default
             | _ :: t0 -> nth m0 t0 default)

(** val nth_error : 'a1 list -> nat -> 'a1 option **)

let rec nth_error l = function
| O -> (match l with
        | [] -> None
        | x :: _ -> Some x)
| S n1 -> (match l with
           | [] -> None
           | _ :: l0 -> nth_error l0 n1)

(** val rev : 'a1 list -> 'a1 list **)

let rec rev = function
| [] -> []
| x :: l' -> app (rev l') (x :: [])

(** val map : ('a1 -> 'a2) -> 'a1 list -> 'a2 list **)

let rec map f = function
| [] -> []
| a :: t0 -> (f a) :: (map f t0)

(** val flat_map : ('a1 -> 'a2 list) -> 'a1 list -> 'a2 list **)

let rec flat_map f = function
| [] -> []
| x :: t0 -> app (f x) (flat_map f t0)

(** val fold_left : ('a1 -> 'a2 -> 'a1) -> 'a2 list -> 'a1 -> 'a1 **)

let rec fold_left f l a0 =
  match l with
  | [] -> a0
  | b :: t0 -> fold_left f t0 (f a0 b)

(** val existsb : ('a1 -> bool) -> 'a1 list -> bool **)

let rec existsb f = function
| [] -> false
| a :: l0 -> (||) (f a) (existsb f l0)

(** val forallb : ('a1 -> bool) -> 'a1 list -> bool **)

let rec forallb f = function
| [] -> true
| a :: l0 -> (&&) (f a) (forallb f l0)

(** val firstn : nat -> 'a1 list -> 'a1 list **)

let rec firstn n0 l =
  match n0 with
  | O -> []
  | S n1 -> (match l with
             | [] -> []
             | a :: l0 -> a :: (firstn n1 l0))

(** val skipn : nat -> 'a1 list -> 'a1 list **)

let rec skipn n0 l =
  match n0 with
  | O -> l
  | S n1 -> (match l with
             | [] -> []
             | _ :: l0 -> skipn n1 l0)

type positive =
| XI of positive
| XO of positive
| XH

type n =
| N0
| Npos of positive

type z =
| Z0
| Zpos of positive
| Zneg of positive

module Pos =
 struct
  type mask =
  | IsNul
  | IsPos of positive
  | IsNeg
 end

module Coq_Pos =
 struct
  (** val succ : positive -> positive **)

  let rec succ = function
  | XI p -> XO (succ p)
  | XO p -> XI p
  | XH -> XO XH

  (** val add : positive -> positive -> positive **)

  let rec add x y =
    match x with
    | XI p ->
      (match y with
       | XI q -> XO (add_carry p q)
       | XO q -> XI (add p q)
       | XH -> XO (succ p))
    | XO p ->
      (match y with
       | XI q -> XI (add p q)
       | XO q -> XO (add p q)
       | XH -> XI p)
    | XH -> (match y with
             | XI q -> XO (succ q)
             | XO q -> XI q
             | XH -> XO XH)

  (** val add_carry : positive -> positive -> positive **)

  and add_carry x y =
    match x with
    | XI p ->
      (match y with
       | XI q -> XI (add_carry p q)
       | XO q -> XO (add_carry p q)
       | XH -> XI (succ p))
    | XO p ->
      (match y with
       | XI q -> XO (add_carry p q)
       | XO q -> XI (add p q)
       | XH -> XO (succ p))
    | XH ->
      (match y with
       | XI q -> XI (succ q)
       | XO q -> XO (succ q)
       | XH -> XI XH)

  (** val pred_double : positive -> positive **)

  let rec pred_double = function
  | XI p -> XI (XO p)
  | XO p -> XI (pred_double p)
  | XH -> XH

  (** val pred_N : positive -> n **)

  let pred_N = function
  | XI p -> Npos (XO p)
  | XO p -> Npos (pred_double p)
  | XH -> N0

  type mask = Pos.mask =
  | IsNul
  | IsPos of positive
  | IsNeg

  (** val succ_double_mask : mask -> mask **)

  let succ_double_mask = function
  | IsNul -> IsPos XH
  | IsPos p -> IsPos (XI p)
  | IsNeg -> IsNeg

  (** val double_mask : mask -> mask **)

  let double_mask = function
  | IsPos p -> IsPos (XO p)
  | x0 -> x0

  (** val double_pred_mask : positive -> mask **)

  let double_pred_mask = function
  | XI p -> IsPos (XO (XO p))
  | XO p -> IsPos (XO (pred_double p))
  | XH -> IsNul

  (** val sub_mask : positive -> positive -> mask **)

  let rec sub_mask x y =
    match x with
    | XI p ->
      (match y with
       | XI q -> double_mask (sub_mask p q)
       | XO q -> succ_double_mask (sub_mask p q)
       | XH -> IsPos (XO p))
    | XO p ->
      (match y with
       | XI q -> succ_double_mask (sub_mask_carry p q)
       | XO q -> double_mask (sub_mask p q)
       | XH -> IsPos (pred_double p))
    | XH -> (match y with
             | XH -> IsNul
             | _ -> IsNeg)

  (** val sub_mask_carry : positive -> positive -> mask **)

  and sub_mask_carry x y =
    match x with
    | XI p ->
      (match y with
       | XI q -> succ_double_mask (sub_mask_carry p q)
       | XO q -> double_mask (sub_mask p q)
       | XH -> IsPos (pred_double p))
    | XO p ->
      (match y with
       | XI q -> double_mask (sub_mask_carry p q)
       | XO q -> succ_double_mask (sub_mask_carry p q)
       | XH -> double_pred_mask p)
    | XH -> IsNeg

  (** val mul : positive -> positive -> positive **)

  let rec mul x y =
    match x with
    | XI p -> add y (XO (mul p y))
    | XO p -> XO (mul p y)
    | XH -> y

  (** val iter : ('a1 -> 'a1) -> 'a1 -> positive -> 'a1 **)

  let rec iter f x = function
  | XI n' -> f (iter f (iter f x n') n')
  | XO n' -> iter f (iter f x n') n'
  | XH -> f x

  (** val div2 : positive -> positive **)

  let div2 = function
  | XI p0 -> p0
  | XO p0 -> p0
  | XH -> XH

  (** val div2_up : positive -> positive **)

  let div2_up = function
  | XI p0 -> succ p0
  | XO p0 -> p0
  | XH -> XH

  (** val compare_cont : comparison -> positive -> positive -> comparison **)

  let rec compare_cont r x y =
    match x with
    | XI p ->
      (match y with
       | XI q -> compare_cont r p q
       | XO q -> compare_cont Gt p q
       | XH -> Gt)
    | XO p ->
      (match y with
       | XI q -> compare_cont Lt p q
       | XO q -> compare_cont r p q
       | XH -> Gt)
    | XH -> (match y with
             | XH -> r
             | _ -> Lt)

  (** val compare : positive -> positive -> comparison **)

  let compare =
    compare_cont Eq

  (** val eqb : positive -> positive -> bool **)

  let rec eqb p q =
    match p with
    | XI p0 -> (match q with
                | XI q0 -> eqb p0 q0
                | _ -> false)
    | XO p0 -> (match q with
                | XO q0 -> eqb p0 q0
                | _ -> false)
    | XH -> (match q with
             | XH -> true
             | _ -> false)

  (** val coq_Nsucc_double : n -> n **)

  let coq_Nsucc_double = function
  | N0 -> Npos XH
  | Npos p -> Npos (XI p)

  (** val coq_Ndouble : n -> n **)

  let coq_Ndouble = function
  | N0 -> N0
  | Npos p -> Npos (XO p)

  (** val coq_lor : positive -> positive -> positive **)

  let rec coq_lor p q =
    match p with
    | XI p0 ->
      (match q with
       | XI q0 -> XI (coq_lor p0 q0)
       | XO q0 -> XI (coq_lor p0 q0)
       | XH -> p)
    | XO p0 ->
      (match q with
       | XI q0 -> XI (coq_lor p0 q0)
       | XO q0 -> XO (coq_lor p0 q0)
       | XH -> XI p0)
    | XH -> (match q with
             | XO q0 -> XI q0
             | _ -> q)

  (** val coq_land : positive -> positive -> n **)

  let rec coq_land p q =
    match p with
    | XI p0 ->
      (match q with
       | XI q0 -> coq_Nsucc_double (coq_land p0 q0)
       | XO q0 -> coq_Ndouble (coq_land p0 q0)
       | XH -> Npos XH)
    | XO p0 ->
      (match q with
       | XI q0 -> coq_Ndouble (coq_land p0 q0)
       | XO q0 -> coq_Ndouble (coq_land p0 q0)
       | XH -> N0)
    | XH -> (match q with
             | XO _ -> N0
             | _ -> Npos XH)

  (** val ldiff : positive -> positive -> n **)

  let rec ldiff p q =
    match p with
    | XI p0 ->
      (match q with
       | XI q0 -> coq_Ndouble (ldiff p0 q0)
       | XO q0 -> coq_Nsucc_double (ldiff p0 q0)
       | XH -> Npos (XO p0))
    | XO p0 ->
      (match q with
       | XI q0 -> coq_Ndouble (ldiff p0 q0)
       | XO q0 -> coq_Ndouble (ldiff p0 q0)
       | XH -> Npos p)
    | XH -> (match q with
             | XO _ -> Npos XH
             | _ -> N0)

  (** val coq_lxor : positive -> positive -> n **)

  let rec coq_lxor p q =
    match p with
    | XI p0 ->
      (match q with
       | XI q0 -> coq_Ndouble (coq_lxor p0 q0)
       | XO q0 -> coq_Nsucc_double (coq_lxor p0 q0)
       | XH -> Npos (XO p0))
    | XO p0 ->
      (match q with
       | XI q0 -> coq_Nsucc_double (coq_lxor p0 q0)
       | XO q0 -> coq_Ndouble (coq_lxor p0 q0)
       | XH -> Npos (XI p0))
    | XH ->
      (match q with
       | XI q0 -> Npos (XO q0)
       | XO q0 -> Npos (XI q0)
       | XH -> N0)

  (** val testbit : positive -> n -> bool **)

  let rec testbit p n0 =
    match p with
    | XI p0 -> (match n0 with
                | N0 -> true
                | Npos n1 -> testbit p0 (pred_N n1))
    | XO p0 -> (match n0 with
                | N0 -> false
                | Npos n1 -> testbit p0 (pred_N n1))
    | XH -> (match n0 with
             | N0 -> true
             | Npos _ -> false)

  (** val iter_op : ('a1 -> 'a1 -> 'a1) -> positive -> 'a1 -> 'a1 **)

  let rec iter_op op p a =
    match p with
    | XI p0 -> op a (iter_op op p0 (op a a))
    | XO p0 -> iter_op op p0 (op a a)
    | XH -> a

  (** val to_nat : positive -> nat **)

  let to_nat x =
    iter_op Coq__1.add x (S O)

  (** val of_succ_nat : nat -> positive **)

  let rec of_succ_nat = function
  | O -> XH
  | S x -> succ (of_succ_nat x)
 end

module N =
 struct
  (** val succ_double : n -> n **)

  let succ_double = function
  | N0 -> Npos XH
  | Npos p -> Npos (XI p)

  (** val double : n -> n **)

  let double = function
  | N0 -> N0
  | Npos p -> Npos (XO p)

  (** val succ_pos : n -> positive **)

  let succ_pos = function
  | N0 -> XH
  | Npos p -> Coq_Pos.succ p

  (** val sub : n -> n -> n **)

  let sub n0 m0 =
    match n0 with
    | N0 -> N0
    | Npos n' ->
      (match m0 with
       | N0 -> n0
       | Npos m' ->
         (match Coq_Pos.sub_mask n' m' with
          | Coq_Pos.IsPos p -> Npos p
          | _ -> N0))

  (** val compare : n -> n -> comparison **)

  let compare n0 m0 =
    match n0 with
    | N0 -> (match m0 with
             | N0 -> Eq
             | Npos _ -> Lt)
    | Npos n' -> (match m0 with
                  | N0 -> Gt
                  | Npos m' -> Coq_Pos.compare n' m')

  (** val leb : n -> n -> bool **)

  let leb x y =
    match compare x y with
    | Gt -> false
    | _ -> true

  (** val div2 : n -> n **)

  let div2 = function
  | N0 -> N0
  | Npos p0 -> (match p0 with
                | XI p -> Npos p
                | XO p -> Npos p
                | XH -> N0)

  (** val pos_div_eucl : positive -> n -> n * n **)

  let rec pos_div_eucl a b =
    match a with
    | XI a' ->
      let (q, r) = pos_div_eucl a' b in
      let r' = succ_double r in
      if leb b r' then ((succ_double q), (sub r' b)) else ((double q), r')
    | XO a' ->
      let (q, r) = pos_div_eucl a' b in
      let r' = double r in
      if leb b r' then ((succ_double q), (sub r' b)) else ((double q), r')
    | XH ->
      (match b with
       | N0 -> (N0, (Npos XH))
       | Npos p -> (match p with
                    | XH -> ((Npos XH), N0)
                    | _ -> (N0, (Npos XH))))

  (** val coq_lor : n -> n -> n **)

  let coq_lor n0 m0 =
    match n0 with
    | N0 -> m0
    | Npos p ->
      (match m0 with
       | N0 -> n0
       | Npos q -> Npos (Coq_Pos.coq_lor p q))

  (** val coq_land : n -> n -> n **)

  let coq_land n0 m0 =
    match n0 with
    | N0 -> N0
    | Npos p -> (match m0 with
                 | N0 -> N0
                 | Npos q -> Coq_Pos.coq_land p q)

  (** val ldiff : n -> n -> n **)

  let ldiff n0 m0 =
    match n0 with
    | N0 -> N0
    | Npos p -> (match m0 with
                 | N0 -> n0
                 | Npos q -> Coq_Pos.ldiff p q)

  (** val coq_lxor : n -> n -> n **)

  let coq_lxor n0 m0 =
    match n0 with
    | N0 -> m0
    | Npos p -> (match m0 with
                 | N0 -> n0
                 | Npos q -> Coq_Pos.coq_lxor p q)

  (** val shiftr : n -> n -> n **)

  let shiftr a = function
  | N0 -> a
  | Npos p -> Coq_Pos.iter div2 a p

  (** val testbit : n -> n -> bool **)

  let testbit a n0 =
    match a with
    | N0 -> false
    | Npos p -> Coq_Pos.testbit p n0

  (** val b2n : bool -> n **)

  let b2n = function
  | true -> Npos XH
  | false -> N0
 end

module Z =
 struct
  (** val double : z -> z **)

  let double = function
  | Z0 -> Z0
  | Zpos p -> Zpos (XO p)
  | Zneg p -> Zneg (XO p)

  (** val succ_double : z -> z **)

  let succ_double = function
  | Z0 -> Zpos XH
  | Zpos p -> Zpos (XI p)
  | Zneg p -> Zneg (Coq_Pos.pred_double p)

  (** val pred_double : z -> z **)

  let pred_double = function
  | Z0 -> Zneg XH
  | Zpos p -> Zpos (Coq_Pos.pred_double p)
  | Zneg p -> Zneg (XI p)

  (** val pos_sub : positive -> positive -> z **)

  let rec pos_sub x y =
    match x with
    | XI p ->
      (match y with
       | XI q -> double (pos_sub p q)
       | XO q -> succ_double (pos_sub p q)
       | XH -> Zpos (XO p))
    | XO p ->
      (match y with
       | XI q -> pred_double (pos_sub p q)
       | XO q -> double (pos_sub p q)
       | XH -> Zpos (Coq_Pos.pred_double p))
    | XH ->
      (match y with
       | XI q -> Zneg (XO q)
       | XO q -> Zneg (Coq_Pos.pred_double q)
       | XH -> Z0)

  (** val add : z -> z -> z **)

  let add x y =
    match x with
    | Z0 -> y
    | Zpos x' ->
      (match y with
       | Z0 -> x
       | Zpos y' -> Zpos (Coq_Pos.add x' y')
       | Zneg y' -> pos_sub x' y')
    | Zneg x' ->
      (match y with
       | Z0 -> x
       | Zpos y' -> pos_sub y' x'
       | Zneg y' -> Zneg (Coq_Pos.add x' y'))

  (** val opp : z -> z **)

  let opp = function
  | Z0 -> Z0
  | Zpos x0 -> Zneg x0
  | Zneg x0 -> Zpos x0

  (** val sub : z -> z -> z **)

  let sub m0 n0 =
    add m0 (opp n0)

  (** val mul : z -> z -> z **)

  let mul x y =
    match x with
    | Z0 -> Z0
    | Zpos x' ->
      (match y with
       | Z0 -> Z0
       | Zpos y' -> Zpos (Coq_Pos.mul x' y')
       | Zneg y' -> Zneg (Coq_Pos.mul x' y'))
    | Zneg x' ->
      (match y with
       | Z0 -> Z0
       | Zpos y' -> Zneg (Coq_Pos.mul x' y')
       | Zneg y' -> Zpos (Coq_Pos.mul x' y'))

  (** val pow_pos : z -> positive -> z **)

  let pow_pos z0 =
    Coq_Pos.iter (mul z0) (Zpos XH)

  (** val pow : z -> z -> z **)

  let pow x = function
  | Z0 -> Zpos XH
  | Zpos p -> pow_pos x p
  | Zneg _ -> Z0

  (** val compare : z -> z -> comparison **)

  let compare x y =
    match x with
    | Z0 -> (match y with
             | Z0 -> Eq
             | Zpos _ -> Lt
             | Zneg _ -> Gt)
    | Zpos x' -> (match y with
                  | Zpos y' -> Coq_Pos.compare x' y'
                  | _ -> Gt)
    | Zneg x' ->
      (match y with
       | Zneg y' -> compOpp (Coq_Pos.compare x' y')
       | _ -> Lt)

  (** val leb : z -> z -> bool **)

  let leb x y =
    match compare x y with
    | Gt -> false
    | _ -> true

  (** val ltb : z -> z -> bool **)

  let ltb x y =
    match compare x y with
    | Lt -> true
    | _ -> false

  (** val gtb : z -> z -> bool **)

  let gtb x y =
    match compare x y with
    | Gt -> true
    | _ -> false

  (** val eqb : z -> z -> bool **)

  let eqb x y =
    match x with
    | Z0 -> (match y with
             | Z0 -> true
             | _ -> false)
    | Zpos p -> (match y with
                 | Zpos q -> Coq_Pos.eqb p q
                 | _ -> false)
    | Zneg p -> (match y with
                 | Zneg q -> Coq_Pos.eqb p q
                 | _ -> false)

  (** val max : z -> z -> z **)

  let max n0 m0 =
    match compare n0 m0 with
    | Lt -> m0
    | _ -> n0

  (** val min : z -> z -> z **)

  let min n0 m0 =
    match compare n0 m0 with
    | Gt -> m0
    | _ -> n0

  (** val to_nat : z -> nat **)

  let to_nat = function
  | Zpos p -> Coq_Pos.to_nat p
  | _ -> O

  (** val to_N : z -> n **)

  let to_N = function
  | Zpos p -> Npos p
  | _ -> N0

  (** val of_nat : nat -> z **)

  let of_nat = function
  | O -> Z0
  | S n1 -> Zpos (Coq_Pos.of_succ_nat n1)

  (** val of_N : n -> z **)

  let of_N = function
  | N0 -> Z0
  | Npos p -> Zpos p

  (** val pos_div_eucl : positive -> z -> z * z **)

  let rec pos_div_eucl a b =
    match a with
    | XI a' ->
      let (q, r) = pos_div_eucl a' b in
      let r' = add (mul (Zpos (XO XH)) r) (Zpos XH) in
      if ltb r' b
      then ((mul (Zpos (XO XH)) q), r')
      else ((add (mul (Zpos (XO XH)) q) (Zpos XH)), (sub r' b))
    | XO a' ->
      let (q, r) = pos_div_eucl a' b in
      let r' = mul (Zpos (XO XH)) r in
      if ltb r' b
      then ((mul (Zpos (XO XH)) q), r')
      else ((add (mul (Zpos (XO XH)) q) (Zpos XH)), (sub r' b))
    | XH -> if leb (Zpos (XO XH)) b then (Z0, (Zpos XH)) else ((Zpos XH), Z0)

  (** val div_eucl : z -> z -> z * z **)

  let div_eucl a b =
    match a with
    | Z0 -> (Z0, Z0)
    | Zpos a' ->
      (match b with
       | Z0 -> (Z0, a)
       | Zpos _ -> pos_div_eucl a' b
       | Zneg b' ->
         let (q, r) = pos_div_eucl a' (Zpos b') in
         (match r with
          | Z0 -> ((opp q), Z0)
          | _ -> ((opp (add q (Zpos XH))), (add b r))))
    | Zneg a' ->
      (match b with
       | Z0 -> (Z0, a)
       | Zpos _ ->
         let (q, r) = pos_div_eucl a' b in
         (match r with
          | Z0 -> ((opp q), Z0)
          | _ -> ((opp (add q (Zpos XH))), (sub b r)))
       | Zneg b' -> let (q, r) = pos_div_eucl a' (Zpos b') in (q, (opp r)))

  (** val div : z -> z -> z **)

  let div a b =
    let (q, _) = div_eucl a b in q

  (** val modulo : z -> z -> z **)

  let modulo a b =
    let (_, r) = div_eucl a b in r

  (** val quotrem : z -> z -> z * z **)

  let quotrem a b =
    match a with
    | Z0 -> (Z0, Z0)
    | Zpos a0 ->
      (match b with
       | Z0 -> (Z0, a)
       | Zpos b0 ->
         let (q, r) = N.pos_div_eucl a0 (Npos b0) in ((of_N q), (of_N r))
       | Zneg b0 ->
         let (q, r) = N.pos_div_eucl a0 (Npos b0) in
         ((opp (of_N q)), (of_N r)))
    | Zneg a0 ->
      (match b with
       | Z0 -> (Z0, a)
       | Zpos b0 ->
         let (q, r) = N.pos_div_eucl a0 (Npos b0) in
         ((opp (of_N q)), (opp (of_N r)))
       | Zneg b0 ->
         let (q, r) = N.pos_div_eucl a0 (Npos b0) in
         ((of_N q), (opp (of_N r))))

  (** val rem : z -> z -> z **)

  let rem a b =
    snd (quotrem a b)

  (** val div2 : z -> z **)

  let div2 = function
  | Z0 -> Z0
  | Zpos p -> (match p with
               | XH -> Z0
               | _ -> Zpos (Coq_Pos.div2 p))
  | Zneg p -> Zneg (Coq_Pos.div2_up p)

  (** val shiftl : z -> z -> z **)

  let shiftl a = function
  | Z0 -> a
  | Zpos p -> Coq_Pos.iter (mul (Zpos (XO XH))) a p
  | Zneg p -> Coq_Pos.iter div2 a p

  (** val shiftr : z -> z -> z **)

  let shiftr a n0 =
    shiftl a (opp n0)

  (** val coq_lor : z -> z -> z **)

  let coq_lor a b =
    match a with
    | Z0 -> b
    | Zpos a0 ->
      (match b with
       | Z0 -> a
       | Zpos b0 -> Zpos (Coq_Pos.coq_lor a0 b0)
       | Zneg b0 -> Zneg (N.succ_pos (N.ldiff (Coq_Pos.pred_N b0) (Npos a0))))
    | Zneg a0 ->
      (match b with
       | Z0 -> a
       | Zpos b0 -> Zneg (N.succ_pos (N.ldiff (Coq_Pos.pred_N a0) (Npos b0)))
       | Zneg b0 ->
         Zneg
           (N.succ_pos (N.coq_land (Coq_Pos.pred_N a0) (Coq_Pos.pred_N b0))))

  (** val coq_land : z -> z -> z **)

  let coq_land a b =
    match a with
    | Z0 -> Z0
    | Zpos a0 ->
      (match b with
       | Z0 -> Z0
       | Zpos b0 -> of_N (Coq_Pos.coq_land a0 b0)
       | Zneg b0 -> of_N (N.ldiff (Npos a0) (Coq_Pos.pred_N b0)))
    | Zneg a0 ->
      (match b with
       | Z0 -> Z0
       | Zpos b0 -> of_N (N.ldiff (Npos b0) (Coq_Pos.pred_N a0))
       | Zneg b0 ->
         Zneg (N.succ_pos (N.coq_lor (Coq_Pos.pred_N a0) (Coq_Pos.pred_N b0))))

  (** val coq_lxor : z -> z -> z **)

  let coq_lxor a b =
    match a with
    | Z0 -> b
    | Zpos a0 ->
      (match b with
       | Z0 -> a
       | Zpos b0 -> of_N (Coq_Pos.coq_lxor a0 b0)
       | Zneg b0 ->
         Zneg (N.succ_pos (N.coq_lxor (Npos a0) (Coq_Pos.pred_N b0))))
    | Zneg a0 ->
      (match b with
       | Z0 -> a
       | Zpos b0 ->
         Zneg (N.succ_pos (N.coq_lxor (Coq_Pos.pred_N a0) (Npos b0)))
       | Zneg b0 -> of_N (N.coq_lxor (Coq_Pos.pred_N a0) (Coq_Pos.pred_N b0)))
 end

(** val eqb0 : byte -> byte -> bool **)

let eqb0 a b =
  let (a0, p) = to_bits a in
  let (a1, p0) = p in
  let (a2, p6) = p0 in
  let (a3, p7) = p6 in
  let (a4, p8) = p7 in
  let (a5, p9) = p8 in
  let (a6, a7) = p9 in
  let (b0, p10) = to_bits b in
  let (b1, p11) = p10 in
  let (b2, p12) = p11 in
  let (b3, p13) = p12 in
  let (b4, p14) = p13 in
  let (b5, p15) = p14 in
  let (b6, b7) = p15 in
  (&&)
    ((&&)
      ((&&)
        ((&&)
          ((&&) ((&&) ((&&) (eqb a0 b0) (eqb a1 b1)) (eqb a2 b2)) (eqb a3 b3))
          (eqb a4 b4)) (eqb a5 b5)) (eqb a6 b6)) (eqb a7 b7)

(** val to_N0 : byte -> n **)

let to_N0 = function
| X00 -> N0
| X01 -> Npos XH
| X02 -> Npos (XO XH)
| X03 -> Npos (XI XH)
| X04 -> Npos (XO (XO XH))
| X05 -> Npos (XI (XO XH))
| X06 -> Npos (XO (XI XH))
| X07 -> Npos (XI (XI XH))
| X08 -> Npos (XO (XO (XO XH)))
| X09 -> Npos (XI (XO (XO XH)))
| X0a -> Npos (XO (XI (XO XH)))
| X0b -> Npos (XI (XI (XO XH)))
| X0c -> Npos (XO (XO (XI XH)))
| X0d -> Npos (XI (XO (XI XH)))
| X0e -> Npos (XO (XI (XI XH)))
| X0f -> Npos (XI (XI (XI XH)))
| X10 -> Npos (XO (XO (XO (XO XH))))
| X11 -> Npos (XI (XO (XO (XO XH))))
| X12 -> Npos (XO (XI (XO (XO XH))))
| X13 -> Npos (XI (XI (XO (XO XH))))
| X14 -> Npos (XO (XO (XI (XO XH))))
| X15 -> Npos (XI (XO (XI (XO XH))))
| X16 -> Npos (XO (XI (XI (XO XH))))
| X17 -> Npos (XI (XI (XI (XO XH))))
| X18 -> Npos (XO (XO (XO (XI XH))))
| X19 -> Npos (XI (XO (XO (XI XH))))
| X1a -> Npos (XO (XI (XO (XI XH))))
| X1b -> Npos (XI (XI (XO (XI XH))))
| X1c -> Npos (XO (XO (XI (XI XH))))
| X1d -> Npos (XI (XO (XI (XI XH))))
| X1e -> Npos (XO (XI (XI (XI XH))))
| X1f -> Npos (XI (XI (XI (XI XH))))
| X20 -> Npos (XO (XO (XO (XO (XO XH)))))
| X21 -> Npos (XI (XO (XO (XO (XO XH)))))
| X22 -> Npos (XO (XI (XO (XO (XO XH)))))
| X23 -> Npos (XI (XI (XO (XO (XO XH)))))
| X24 -> Npos (XO (XO (XI (XO (XO XH)))))
| X25 -> Npos (XI (XO (XI (XO (XO XH)))))
| X26 -> Npos (XO (XI (XI (XO (XO XH)))))
| X27 -> Npos (XI (XI (XI (XO (XO XH)))))
| X28 -> Npos (XO (XO (XO (XI (XO XH)))))
| X29 -> Npos (XI (XO (XO (XI (XO XH)))))
| X2a -> Npos (XO (XI (XO (XI (XO XH)))))
| X2b -> Npos (XI (XI (XO (XI (XO XH)))))
| X2c -> Npos (XO (XO (XI (XI (XO XH)))))
| X2d -> Npos (XI (XO (XI (XI (XO XH)))))
| X2e -> Npos (XO (XI (XI (XI (XO XH)))))
| X2f -> Npos (XI (XI (XI (XI (XO XH)))))
| X30 -> Npos (XO (XO (XO (XO (XI XH)))))
| X31 -> Npos (XI (XO (XO (XO (XI XH)))))
| X32 -> Npos (XO (XI (XO (XO (XI XH)))))
| X33 -> Npos (XI (XI (XO (XO (XI XH)))))
| X34 -> Npos (XO (XO (XI (XO (XI XH)))))
| X35 -> Npos (XI (XO (XI (XO (XI XH)))))
| X36 -> Npos (XO (XI (XI (XO (XI XH)))))
| X37 -> Npos (XI (XI (XI (XO (XI XH)))))
| X38 -> Npos (XO (XO (XO (XI (XI XH)))))
| X39 -> Npos (XI (XO (XO (XI (XI XH)))))
| X3a -> Npos (XO (XI (XO (XI (XI XH)))))
| X3b -> Npos (XI (XI (XO (XI (XI XH)))))
| X3c -> Npos (XO (XO (XI (XI (XI XH)))))
| X3d -> Npos (XI (XO (XI (XI (XI XH)))))
| X3e -> Npos (XO (XI (XI (XI (XI XH)))))
| X3f -> Npos (XI (XI (XI (XI (XI XH)))))
| X40 -> Npos (XO (XO (XO (XO (XO (XO XH))))))
| X41 -> Npos (XI (XO (XO (XO (XO (XO XH))))))
| X42 -> Npos (XO (XI (XO (XO (XO (XO XH))))))
| X43 -> Npos (XI (XI (XO (XO (XO (XO XH))))))
| X44 -> Npos (XO (XO (XI (XO (XO (XO XH))))))
| X45 -> Npos (XI (XO (XI (XO (XO (XO XH))))))
| X46 -> Npos (XO (XI (XI (XO (XO (XO XH))))))
| X47 -> Npos (XI (XI (XI (XO (XO (XO XH))))))
| X48 -> Npos (XO (XO (XO (XI (XO (XO XH))))))
| X49 -> Npos (XI (XO (XO (XI (XO (XO XH))))))
| X4a -> Npos (XO (XI (XO (XI (XO (XO XH))))))
| X4b -> Npos (XI (XI (XO (XI (XO (XO XH))))))
| X4c -> Npos (XO (XO (XI (XI (XO (XO XH))))))
| X4d -> Npos (XI (XO (XI (XI (XO (XO XH))))))
| X4e -> Npos (XO (XI (XI (XI (XO (XO XH))))))
| X4f -> Npos (XI (XI (XI (XI (XO (XO XH))))))
| X50 -> Npos (XO (XO (XO (XO (XI (XO XH))))))
| X51 -> Npos (XI (XO (XO (XO (XI (XO XH))))))
| X52 -> Npos (XO (XI (XO (XO (XI (XO XH))))))
| X53 -> Npos (XI (XI (XO (XO (XI (XO XH))))))
| X54 -> Npos (XO (XO (XI (XO (XI (XO XH))))))
| X55 -> Npos (XI (XO (XI (XO (XI (XO XH))))))
| X56 -> Npos (XO (XI (XI (XO (XI (XO XH))))))
| X57 -> Npos (XI (XI (XI (XO (XI (XO XH))))))
| X58 -> Npos (XO (XO (XO (XI (XI (XO XH))))))
| X59 -> Npos (XI (XO (XO (XI (XI (XO XH))))))
| X5a -> Npos (XO (XI (XO (XI (XI (XO XH))))))
| X5b -> Npos (XI (XI (XO (XI (XI (XO XH))))))
| X5c -> Npos (XO (XO (XI (XI (XI (XO XH))))))
| X5d -> Npos (XI (XO (XI (XI (XI (XO XH))))))
| X5e -> Npos (XO (XI (XI (XI (XI (XO XH))))))
| X5f -> Npos (XI (XI (XI (XI (XI (XO XH))))))
| X60 -> Npos (XO (XO (XO (XO (XO (XI XH))))))
| X61 -> Npos (XI (XO (XO (XO (XO (XI XH))))))
| X62 -> Npos (XO (XI (XO (XO (XO (XI XH))))))
| X63 -> Npos (XI (XI (XO (XO (XO (XI XH))))))
| X64 -> Npos (XO (XO (XI (XO (XO (XI XH))))))
| X65 -> Npos (XI (XO (XI (XO (XO (XI XH))))))
| X66 -> Npos (XO (XI (XI (XO (XO (XI XH))))))
| X67 -> Npos (XI (XI (XI (XO (XO (XI XH))))))
| X68 -> Npos (XO (XO (XO (XI (XO (XI XH))))))
| X69 -> Npos (XI (XO (XO (XI (XO (XI XH))))))
| X6a -> Npos (XO (XI (XO (XI (XO (XI XH))))))
| X6b -> Npos (XI (XI (XO (XI (XO (XI XH))))))
| X6c -> Npos (XO (XO (XI (XI (XO (XI XH))))))
| X6d -> Npos (XI (XO (XI (XI (XO (XI XH))))))
| X6e -> Npos (XO (XI (XI (XI (XO (XI XH))))))
| X6f -> Npos (XI (XI (XI (XI (XO (XI XH))))))
| X70 -> Npos (XO (XO (XO (XO (XI (XI XH))))))
| X71 -> Npos (XI (XO (XO (XO (XI (XI XH))))))
| X72 -> Npos (XO (XI (XO (XO (XI (XI XH))))))
| X73 -> Npos (XI (XI (XO (XO (XI (XI XH))))))
| X74 -> Npos (XO (XO (XI (XO (XI (XI XH))))))
| X75 -> Npos (XI (XO (XI (XO (XI (XI XH))))))
| X76 -> Npos (XO (XI (XI (XO (XI (XI XH))))))
| X77 -> Npos (XI (XI (XI (XO (XI (XI XH))))))
| X78 -> Npos (XO (XO (XO (XI (XI (XI XH))))))
| X79 -> Npos (XI (XO (XO (XI (XI (XI XH))))))
| X7a -> Npos (XO (XI (XO (XI (XI (XI XH))))))
| X7b -> Npos (XI (XI (XO (XI (XI (XI XH))))))
| X7c -> Npos (XO (XO (XI (XI (XI (XI XH))))))
| X7d -> Npos (XI (XO (XI (XI (XI (XI XH))))))
| X7e -> Npos (XO (XI (XI (XI (XI (XI XH))))))
| X7f -> Npos (XI (XI (XI (XI (XI (XI XH))))))
| X80 -> Npos (XO (XO (XO (XO (XO (XO (XO XH)))))))
| X81 -> Npos (XI (XO (XO (XO (XO (XO (XO XH)))))))
| X82 -> Npos (XO (XI (XO (XO (XO (XO (XO XH)))))))
| X83 -> Npos (XI (XI (XO (XO (XO (XO (XO XH)))))))
| X84 -> Npos (XO (XO (XI (XO (XO (XO (XO XH)))))))
| X85 -> Npos (XI (XO (XI (XO (XO (XO (XO XH)))))))
| X86 -> Npos (XO (XI (XI (XO (XO (XO (XO XH)))))))
| X87 -> Npos (XI (XI (XI (XO (XO (XO (XO XH)))))))
| X88 -> Npos (XO (XO (XO (XI (XO (XO (XO XH)))))))
| X89 -> Npos (XI (XO (XO (XI (XO (XO (XO XH)))))))
| X8a -> Npos (XO (XI (XO (XI (XO (XO (XO XH)))))))
| X8b -> Npos (XI (XI (XO (XI (XO (XO (XO XH)))))))
| X8c -> Npos (XO (XO (XI (XI (XO (XO (XO XH)))))))
| X8d -> Npos (XI (XO (XI (XI (XO (XO (XO XH)))))))
| X8e -> Npos (XO (XI (XI (XI (XO (XO (XO XH)))))))
| X8f -> Npos (XI (XI (XI (XI (XO (XO (XO XH)))))))
| X90 -> Npos (XO (XO (XO (XO (XI (XO (XO XH)))))))
| X91 -> Npos (XI (XO (XO (XO (XI (XO (XO XH)))))))
| X92 -> Npos (XO (XI (XO (XO (XI (XO (XO XH)))))))
| X93 -> Npos (XI (XI (XO (XO (XI (XO (XO XH)))))))
| X94 -> Npos (XO (XO (XI (XO (XI (XO (XO XH)))))))
| X95 -> Npos (XI (XO (XI (XO (XI (XO (XO XH)))))))
| X96 -> Npos (XO (XI (XI (XO (XI (XO (XO XH)))))))
| X97 -> Npos (XI (XI (XI (XO (XI (XO (XO XH)))))))
| X98 -> Npos (XO (XO (XO (XI (XI (XO (XO XH)))))))
| X99 -> Npos (XI (XO (XO (XI (XI (XO (XO XH)))))))
| X9a -> Npos (XO (XI (XO (XI (XI (XO (XO XH)))))))
| X9b -> Npos (XI (XI (XO (XI (XI (XO (XO XH)))))))
| X9c -> Npos (XO (XO (XI (XI (XI (XO (XO XH)))))))
| X9d -> Npos (XI (XO (XI (XI (XI (XO (XO XH)))))))
| X9e -> Npos (XO (XI (XI (XI (XI (XO (XO XH)))))))
| X9f -> Npos (XI (XI (XI (XI (XI (XO (XO XH)))))))
| Xa0 -> Npos (XO (XO (XO (XO (XO (XI (XO XH)))))))
| Xa1 -> Npos (XI (XO (XO (XO (XO (XI (XO XH)))))))
| Xa2 -> Npos (XO (XI (XO (XO (XO (XI (XO XH)))))))
| Xa3 -> Npos (XI (XI (XO (XO (XO (XI (XO XH)))))))
| Xa4 -> Npos (XO (XO (XI (XO (XO (XI (XO XH)))))))
| Xa5 -> Npos (XI (XO (XI (XO (XO (XI (XO XH)))))))
| Xa6 -> Npos (XO (XI (XI (XO (XO (XI (XO XH)))))))
| Xa7 -> Npos (XI (XI (XI (XO (XO (XI (XO XH)))))))
| Xa8 -> Npos (XO (XO (XO (XI (XO (XI (XO XH)))))))
| Xa9 -> Npos (XI (XO (XO (XI (XO (XI (XO XH)))))))
| Xaa -> Npos (XO (XI (XO (XI (XO (XI (XO XH)))))))
| Xab -> Npos (XI (XI (XO (XI (XO (XI (XO XH)))))))
| Xac -> Npos (XO (XO (XI (XI (XO (XI (XO XH)))))))
| Xad -> Npos (XI (XO (XI (XI (XO (XI (XO XH)))))))
| Xae -> Npos (XO (XI (XI (XI (XO (XI (XO XH)))))))
| Xaf -> Npos (XI (XI (XI (XI (XO (XI (XO XH)))))))
| Xb0 -> Npos (XO (XO (XO (XO (XI (XI (XO XH)))))))
| Xb1 -> Npos (XI (XO (XO (XO (XI (XI (XO XH)))))))
| Xb2 -> Npos (XO (XI (XO (XO (XI (XI (XO XH)))))))
| Xb3 -> Npos (XI (XI (XO (XO (XI (XI (XO XH)))))))
| Xb4 -> Npos (XO (XO (XI (XO (XI (XI (XO XH)))))))
| Xb5 -> Npos (XI (XO (XI (XO (XI (XI (XO XH)))))))
| Xb6 -> Npos (XO (XI (XI (XO (XI (XI (XO XH)))))))
| Xb7 -> Npos (XI (XI (XI (XO (XI (XI (XO XH)))))))
| Xb8 -> Npos (XO (XO (XO (XI (XI (XI (XO XH)))))))
| Xb9 -> Npos (XI (XO (XO (XI (XI (XI (XO XH)))))))
| Xba -> Npos (XO (XI (XO (XI (XI (XI (XO XH)))))))
| Xbb -> Npos (XI (XI (XO (XI (XI (XI (XO XH)))))))
| Xbc -> Npos (XO (XO (XI (XI (XI (XI (XO XH)))))))
| Xbd -> Npos (XI (XO (XI (XI (XI (XI (XO XH)))))))
| Xbe -> Npos (XO (XI (XI (XI (XI (XI (XO XH)))))))
| Xbf -> Npos (XI (XI (XI (XI (XI (XI (XO XH)))))))
| Xc0 -> Npos (XO (XO (XO (XO (XO (XO (XI XH)))))))
| Xc1 -> Npos (XI (XO (XO (XO (XO (XO (XI XH)))))))
| Xc2 -> Npos (XO (XI (XO (XO (XO (XO (XI XH)))))))
| Xc3 -> Npos (XI (XI (XO (XO (XO (XO (XI XH)))))))
| Xc4 -> Npos (XO (XO (XI (XO (XO (XO (XI XH)))))))
| Xc5 -> Npos (XI (XO (XI (XO (XO (XO (XI XH)))))))
| Xc6 -> Npos (XO (XI (XI (XO (XO (XO (XI XH)))))))
| Xc7 -> Npos (XI (XI (XI (XO (XO (XO (XI XH)))))))
| Xc8 -> Npos (XO (XO (XO (XI (XO (XO (XI XH)))))))
| Xc9 -> Npos (XI (XO (XO (XI (XO (XO (XI XH)))))))
| Xca -> Npos (XO (XI (XO (XI (XO (XO (XI XH)))))))
| Xcb -> Npos (XI (XI (XO (XI (XO (XO (XI XH)))))))
| Xcc -> Npos (XO (XO (XI (XI (XO (XO (XI XH)))))))
| Xcd -> Npos (XI (XO (XI (XI (XO (XO (XI XH)))))))
| Xce -> Npos (XO (XI (XI (XI (XO (XO (XI XH)))))))
| Xcf -> Npos (XI (XI (XI (XI (XO (XO (XI XH)))))))
| Xd0 -> Npos (XO (XO (XO (XO (XI (XO (XI XH)))))))
| Xd1 -> Npos (XI (XO (XO (XO (XI (XO (XI XH)))))))
| Xd2 -> Npos (XO (XI (XO (XO (XI (XO (XI XH)))))))
| Xd3 -> Npos (XI (XI (XO (XO (XI (XO (XI XH)))))))
| Xd4 -> Npos (XO (XO (XI (XO (XI (XO (XI XH)))))))
| Xd5 -> Npos (XI (XO (XI (XO (XI (XO (XI XH)))))))
| Xd6 -> Npos (XO (XI (XI (XO (XI (XO (XI XH)))))))
| Xd7 -> Npos (XI (XI (XI (XO (XI (XO (XI XH)))))))
| Xd8 -> Npos (XO (XO (XO (XI (XI (XO (XI XH)))))))
| Xd9 -> Npos (XI (XO (XO (XI (XI (XO (XI XH)))))))
| Xda -> Npos (XO (XI (XO (XI (XI (XO (XI XH)))))))
| Xdb -> Npos (XI (XI (XO (XI (XI (XO (XI XH)))))))
| Xdc -> Npos (XO (XO (XI (XI (XI (XO (XI XH)))))))
| Xdd -> Npos (XI (XO (XI (XI (XI (XO (XI XH)))))))
| Xde -> Npos (XO (XI (XI (XI (XI (XO (XI XH)))))))
| Xdf -> Npos (XI (XI (XI (XI (XI (XO (XI XH)))))))
| Xe0 -> Npos (XO (XO (XO (XO (XO (XI (XI XH)))))))
| Xe1 -> Npos (XI (XO (XO (XO (XO (XI (XI XH)))))))
| Xe2 -> Npos (XO (XI (XO (XO (XO (XI (XI XH)))))))
| Xe3 -> Npos (XI (XI (XO (XO (XO (XI (XI XH)))))))
| Xe4 -> Npos (XO (XO (XI (XO (XO (XI (XI XH)))))))
| Xe5 -> Npos (XI (XO (XI (XO (XO (XI (XI XH)))))))
| Xe6 -> Npos (XO (XI (XI (XO (XO (XI (XI XH)))))))
| Xe7 -> Npos (XI (XI (XI (XO (XO (XI (XI XH)))))))
| Xe8 -> Npos (XO (XO (XO (XI (XO (XI (XI XH)))))))
| Xe9 -> Npos (XI (XO (XO (XI (XO (XI (XI XH)))))))
| Xea -> Npos (XO (XI (XO (XI (XO (XI (XI XH)))))))
| Xeb -> Npos (XI (XI (XO (XI (XO (XI (XI XH)))))))
| Xec -> Npos (XO (XO (XI (XI (XO (XI (XI XH)))))))
| Xed -> Npos (XI (XO (XI (XI (XO (XI (XI XH)))))))
| Xee -> Npos (XO (XI (XI (XI (XO (XI (XI XH)))))))
| Xef -> Npos (XI (XI (XI (XI (XO (XI (XI XH)))))))
| Xf0 -> Npos (XO (XO (XO (XO (XI (XI (XI XH)))))))
| Xf1 -> Npos (XI (XO (XO (XO (XI (XI (XI XH)))))))
| Xf2 -> Npos (XO (XI (XO (XO (XI (XI (XI XH)))))))
| Xf3 -> Npos (XI (XI (XO (XO (XI (XI (XI XH)))))))
| Xf4 -> Npos (XO (XO (XI (XO (XI (XI (XI XH)))))))
| Xf5 -> Npos (XI (XO (XI (XO (XI (XI (XI XH)))))))
| Xf6 -> Npos (XO (XI (XI (XO (XI (XI (XI XH)))))))
| Xf7 -> Npos (XI (XI (XI (XO (XI (XI (XI XH)))))))
| Xf8 -> Npos (XO (XO (XO (XI (XI (XI (XI XH)))))))
| Xf9 -> Npos (XI (XO (XO (XI (XI (XI (XI XH)))))))
| Xfa -> Npos (XO (XI (XO (XI (XI (XI (XI XH)))))))
| Xfb -> Npos (XI (XI (XO (XI (XI (XI (XI XH)))))))
| Xfc -> Npos (XO (XO (XI (XI (XI (XI (XI XH)))))))
| Xfd -> Npos (XI (XO (XI (XI (XI (XI (XI XH)))))))
| Xfe -> Npos (XO (XI (XI (XI (XI (XI (XI XH)))))))
| Xff -> Npos (XI (XI (XI (XI (XI (XI (XI XH)))))))

(** val of_N0 : n -> byte option **)

let of_N0 = function
| N0 -> Some X00
| Npos p ->
  (match p with
   | XI p0 ->
     (match p0 with
      | XI p6 ->
        (match p6 with
         | XI p7 ->
           (match p7 with
            | XI p8 ->
              (match p8 with
               | XI p9 ->
                 (match p9 with
                  | XI p10 ->
                    (match p10 with
                     | XI p11 -> (match p11 with
                                  | XH -> Some Xff
                                  | _ -> None)
                     | XO p11 -> (match p11 with
                                  | XH -> Some Xbf
                                  | _ -> None)
                     | XH -> Some X7f)
                  | XO p10 ->
                    (match p10 with
                     | XI p11 -> (match p11 with
                                  | XH -> Some Xdf
                                  | _ -> None)
                     | XO p11 -> (match p11 with
                                  | XH -> Some X9f
                                  | _ -> None)
                     | XH -> Some X5f)
                  | XH -> Some X3f)
               | XO p9 ->
                 (match p9 with
                  | XI p10 ->
                    (match p10 with
                     | XI p11 -> (match p11 with
                                  | XH -> Some Xef
                                  | _ -> None)
                     | XO p11 -> (match p11 with
                                  | XH -> Some Xaf
                                  | _ -> None)
                     | XH -> Some X6f)
                  | XO p10 ->
                    (match p10 with
                     | XI p11 -> (match p11 with
                                  | XH -> Some Xcf
                                  | _ -> None)
                     | XO p11 -> (match p11 with
                                  | XH -> Some X8f
                                  | _ -> None)
                     | XH -> Some X4f)
                  | XH -> Some X2f)
               | XH -> Some X1f)
            | XO p8 ->
              (match p8 with
               | XI p9 ->
                 (match p9 with
                  | XI p10 ->
                    (match p10 with
                     | XI p11 -> (match p11 with
                                  | XH -> Some Xf7
                                  | _ -> None)
                     | XO p11 -> (match p11 with
                                  | XH -> Some Xb7
                                  | _ -> None)
                     | XH -> Some X77)
                  | XO p10 ->
                    (match p10 with
                     | XI p11 -> (match p11 with
                                  | XH -> Some Xd7
                                  | _ -> None)
                     | XO p11 -> (match p11 with
                                  | XH -> Some X97
                                  | _ -> None)
                     | XH -> Some X57)
                  | XH -> Some X37)
               | XO p9 ->
                 (match p9 with
                  | XI p10 ->
                    (match p10 with
                     | XI p11 -> (match p11 with
                                  | XH -> Some Xe7
                                  | _ -> None)
                     | XO p11 -> (match p11 with
                                  | XH -> Some Xa7
                                  | _ -> None)
                     | XH -> Some X67)
                  | XO p10 ->
                    (match p10 with
                     | XI p11 -> (match p11 with
                                  | XH -> Some Xc7
                                  | _ -> None)
                     | XO p11 -> (match p11 with
                                  | XH -> Some X87
                                  | _ -> None)
                     | XH -> Some X47)
                  | XH -> Some X27)
               | XH -> Some X17)
            | XH -> Some X0f)
         | XO p7 ->
           (match p7 with
            | XI p8 ->
              (match p8 with
               | XI p9 ->
                 (match p9 with
                  | XI p10 ->
                    (match p10 with
                     | XI p11 -> (match p11 with
                                  | XH -> Some Xfb
                                  | _ -> None)
                     | XO p11 -> (match p11 with
                                  | XH -> Some Xbb
                                  | _ -> None)
                     | XH -> Some X7b)
                  | XO p10 ->
                    (match p10 with
                     | XI p11 -> (match p11 with
                                  | XH -> Some Xdb
                                  | _ -> None)
                     | XO p11 -> (match p11 with
                                  | XH -> Some X9b
                                  | _ -> None)
                     | XH -> Some X5b)
                  | XH -> Some X3b)
               | XO p9 ->
                 (match p9 with
                  | XI p10 ->
                    (match p10 with
                     | XI p11 -> (match p11 with
                                  | XH -> Some Xeb
                                  | _ -> None)
                     | XO p11 -> (match p11 with
                                  | XH -> Some Xab
                                  | _ -> None)
                     | XH -> Some X6b)
                  | XO p10 ->
                    (match p10 with
                     | XI p11 -> (match p11 with
                                  | XH -> Some Xcb
                                  | _ -> None)
                     | XO p11 -> (match p11 with
                                  | XH -> Some X8b
                                  | _ -> None)
                     | XH -> Some X4b)
                  | XH -> Some X2b)
               | XH -> Some X1b)
            | XO p8 ->
              (match p8 with
               | XI p9 ->
                 (match p9 with
                  | XI p10 ->
                    (match p10 with
                     | XI p11 -> (match p11 with
                                  | XH -> Some Xf3
                                  | _ -> None)
                     | XO p11 -> (match p11 with
                                  | XH -> Some Xb3
                                  | _ -> None)
                     | XH -> Some X73)
                  | XO p10 ->
                    (match p10 with
                     | XI p11 -> (match p11 with
                                  | XH -> Some Xd3
                                  | _ -> None)
                     | XO p11 -> (match p11 with
                                  | XH -> Some X93
                                  | _ -> None)
                     | XH -> Some X53)
                  | XH -> Some X33)
               | XO p9 ->
                 (match p9 with
                  | XI p10 ->
                    (match p10 with
                     | XI p11 -> (match p11 with
                                  | XH -> Some Xe3
                                  | _ -> None)
                     | XO p11 -> (match p11 with
                                  | XH -> Some Xa3
                                  | _ -> None)
                     | XH -> Some X63)
                  | XO p10 ->
                    (match p10 with
                     | XI p11 -> (match p11 with
                                  | XH -> Some Xc3
                                  | _ -> None)
                     | XO p11 -> (match p11 with
                                  | XH -> Some X83
                                  | _ -> None)
                     | XH -> Some X43)
                  | XH -> Some X23)
               | XH -> Some X13)
            | XH -> Some X0b)
         | XH -> Some X07)
      | XO p6 ->
        (match p6 with
         | XI p7 ->
           (match p7 with
            | XI p8 ->
              (match p8 with
               | XI p9 ->
                 (match p9 with
                  | XI p10 ->
                    (match p10 with
                     | XI p11 -> (match p11 with
                                  | XH -> Some Xfd
                                  | _ -> None)
                     | XO p11 -> (match p11 with
                                  | XH -> Some Xbd
                                  | _ -> None)
                     | XH -> Some X7d)
                  | XO p10 ->
                    (match p10 with
                     | XI p11 -> (match p11 with
                                  | XH -> Some Xdd
                                  | _ -> None)
                     | XO p11 -> (match p11 with
                                  | XH -> Some X9d
                                  | _ -> None)
                     | XH -> Some X5d)
                  | XH -> Some X3d)
               | XO p9 ->
                 (match p9 with
                  | XI p10 ->
                    (match p10 with
                     | XI p11 -> (match p11 with
                                  | XH -> Some Xed
                                  | _ -> None)
                     | XO p11 -> (match p11 with
                                  | XH -> Some Xad
                                  | _ -> None)
                     | XH -> Some X6d)
                  | XO p10 ->
                    (match p10 with
                     | XI p11 -> (match p11 with
                                  | XH -> Some Xcd
                                  | _ -> None)
                     | XO p11 -> (match p11 with
                                  | XH -> Some X8d
                                  | _ -> None)
                     | XH -> Some X4d)
                  | XH -> Some X2d)
               | XH -> Some X1d)
            | XO p8 ->
              (match p8 with
               | XI p9 ->
                 (match p9 with
                  | XI p10 ->
                    (match p10 with
                     | XI p11 -> (match p11 with
                                  | XH -> Some Xf5
                                  | _ -> None)
                     | XO p11 -> (match p11 with
                                  | XH -> Some Xb5
                                  | _ -> None)
                     | XH -> Some X75)
                  | XO p10 ->
                    (match p10 with
                     | XI p11 -> (match p11 with
                                  | XH -> Some Xd5
                                  | _ -> None)
                     | XO p11 -> (match p11 with
                                  | XH -> Some X95
                                  | _ -> None)
                     | XH -> Some X55)
                  | XH -> Some X35)
               | XO p9 ->
                 (match p9 with
                  | XI p10 ->
                    (match p10 with
                     | XI p11 -> (match p11 with
                                  | XH -> Some Xe5
                                  | _ -> None)
                     | XO p11 -> (match p11 with
                                  | XH -> Some Xa5
                                  | _ -> None)
                     | XH -> Some X65)
                  | XO p10 ->
                    (match p10 with
                     | XI p11 -> (match p11 with
                                  | XH -> Some Xc5
                                  | _ -> None)
                     | XO p11 -> (match p11 with
                                  | XH -> Some X85
                                  | _ -> None)
                     | XH -> Some X45)
                  | XH -> Some X25)
               | XH -> Some X15)
            | XH -> Some X0d)
         | XO p7 ->
           (match p7 with
            | XI p8 ->
              (match p8 with
               | XI p9 ->
                 (match p9 with
                  | XI p10 ->
                    (match p10 with
                     | XI p11 -> (match p11 with
                                  | XH -> Some Xf9
                                  | _ -> None)
                     | XO p11 -> (match p11 with
                                  | XH -> Some Xb9
                                  | _ -> None)
                     | XH -> Some X79)
                  | XO p10 ->
                    (match p10 with
                     | XI p11 -> (match p11 with
                                  | XH -> Some Xd9
                                  | _ -> None)
                     | XO p11 -> (match p11 with
                                  | XH -> Some X99
                                  | _ -> None)
                     | XH -> Some X59)
                  | XH -> Some X39)
               | XO p9 ->
                 (match p9 with
                  | XI p10 ->
                    (match p10 with
                     | XI p11 -> (match p11 with
                                  | XH -> Some Xe9
                                  | _ -> None)
                     | XO p11 -> (match p11 with
                                  | XH -> Some Xa9
                                  | _ -> None)
                     | XH -> Some X69)
                  | XO p10 ->
                    (match p10 with
                     | XI p11 -> (match p11 with
                                  | XH -> Some Xc9
                                  | _ -> None)
                     | XO p11 -> (match p11 with
                                  | XH -> Some X89
                                  | _ -> None)
                     | XH -> Some X49)
                  | XH -> Some X29)
               | XH -> Some X19)
            | XO p8 ->
              (match p8 with
               | XI p9 ->
                 (match p9 with
                  | XI p10 ->
                    (match p10 with
                     | XI p11 -> (match p11 with
                                  | XH -> Some Xf1
                                  | _ -> None)
                     | XO p11 -> (match p11 with
                                  | XH -> Some Xb1
                                  | _ -> None)
                     | XH -> Some X71)
                  | XO p10 ->
                    (match p10 with
                     | XI p11 -> (match p11 with
                                  | XH -> Some Xd1
                                  | _ -> None)
                     | XO p11 -> (match p11 with
                                  | XH -> Some X91
                                  | _ -> None)
                     | XH -> Some X51)
                  | XH -> Some X31)
               | XO p9 ->
                 (match p9 with
                  | XI p10 ->
                    (match p10 with
                     | XI p11 -> (match p11 with
                                  | XH -> Some Xe1
                                  | _ -> None)
                     | XO p11 -> (match p11 with
                                  | XH -> Some Xa1
                                  | _ -> None)
                     | XH -> Some X61)
                  | XO p10 ->
                    (match p10 with
                     | XI p11 -> (match p11 with
                                  | XH -> Some Xc1
                                  | _ -> None)
                     | XO p11 -> (match p11 with
                                  | XH -> Some X81
                                  | _ -> None)
                     | XH -> Some X41)
                  | XH -> Some X21)
               | XH -> Some X11)
            | XH -> Some X09)
         | XH -> Some X05)
      | XH -> Some X03)
   | XO p0 ->
     (match p0 with
      | XI p6 ->
        (match p6 with
         | XI p7 ->
           (match p7 with
            | XI p8 ->
              (match p8 with
               | XI p9 ->
                 (match p9 with
                  | XI p10 ->
                    (match p10 with
                     | XI p11 -> (match p11 with
                                  | XH -> Some Xfe
                                  | _ -> None)
                     | XO p11 -> (match p11 with
                                  | XH -> Some Xbe
                                  | _ -> None)
                     | XH -> Some X7e)
                  | XO p10 ->
                    (match p10 with
                     | XI p11 -> (match p11 with
                                  | XH -> Some Xde
                                  | _ -> None)
                     | XO p11 -> (match p11 with
                                  | XH -> Some X9e
                                  | _ -> None)
                     | XH -> Some X5e)
                  | XH -> Some X3e)
               | XO p9 ->
                 (match p9 with
                  | XI p10 ->
                    (match p10 with
                     | XI p11 -> (match p11 with
                                  | XH -> Some Xee
                                  | _ -> None)
                     | XO p11 -> (match p11 with
                                  | XH -> Some Xae
                                  | _ -> None)
                     | XH -> Some X6e)
                  | XO p10 ->
                    (match p10 with
                     | XI p11 -> (match p11 with
                                  | XH -> Some Xce
                                  | _ -> None)
                     | XO p11 -> (match p11 with
                                  | XH -> Some X8e
                                  | _ -> None)
                     | XH -> Some X4e)
                  | XH -> Some X2e)
               | XH -> Some X1e)
            | XO p8 ->
              (match p8 with
               | XI p9 ->
                 (match p9 with
                  | XI p10 ->
                    (match p10 with
                     | XI p11 -> (match p11 with
                                  | XH -> Some Xf6
                                  | _ -> None)
                     | XO p11 -> (match p11 with
                                  | XH -> Some Xb6
                                  | _ -> None)
                     | XH -> Some X76)
                  | XO p10 ->
                    (match p10 with
                     | XI p11 -> (match p11 with
                                  | XH -> Some Xd6
                                  | _ -> None)
                     | XO p11 -> (match p11 with
                                  | XH -> Some X96
                                  | _ -> None)
                     | XH -> Some X56)
                  | XH -> Some X36)
               | XO p9 ->
                 (match p9 with
                  | XI p10 ->
                    (match p10 with
                     | XI p11 -> (match p11 with
                                  | XH -> Some Xe6
                                  | _ -> None)
                     | XO p11 -> (match p11 with
                                  | XH -> Some Xa6
                                  | _ -> None)
                     | XH -> Some X66)
                  | XO p10 ->
                    (match p10 with
                     | XI p11 -> (match p11 with
                                  | XH -> Some Xc6
                                  | _ -> None)
                     | XO p11 -> (match p11 with
                                  | XH -> Some X86
                                  | _ -> None)
                     | XH -> Some X46)
                  | XH -> Some X26)
               | XH -> Some X16)
            | XH -> Some X0e)
         | XO p7 ->
           (match p7 with
            | XI p8 ->
              (match p8 with
               | XI p9 ->
                 (match p9 with
                  | XI p10 ->
                    (match p10 with
                     | XI p11 -> (match p11 with
                                  | XH -> Some Xfa
                                  | _ -> None)
                     | XO p11 -> (match p11 with
                                  | XH -> Some Xba
                                  | _ -> None)
                     | XH -> Some X7a)
                  | XO p10 ->
                    (match p10 with
                     | XI p11 -> (match p11 with
                                  | XH -> Some Xda
                                  | _ -> None)
                     | XO p11 -> (match p11 with
                                  | XH -> Some X9a
                                  | _ -> None)
                     | XH -> Some X5a)
                  | XH -> Some X3a)
               | XO p9 ->
                 (match p9 with
                  | XI p10 ->
                    (match p10 with
                     | XI p11 -> (match p11 with
                                  | XH -> Some Xea
                                  | _ -> None)
                     | XO p11 -> (match p11 with
                                  | XH -> Some Xaa
                                  | _ -> None)
                     | XH -> Some X6a)
                  | XO p10 ->
                    (match p10 with
                     | XI p11 -> (match p11 with
                                  | XH -> Some Xca
                                  | _ -> None)
                     | XO p11 -> (match p11 with
                                  | XH -> Some X8a
                                  | _ -> None)
                     | XH -> Some X4a)
                  | XH -> Some X2a)
               | XH -> Some X1a)
            | XO p8 ->
              (match p8 with
               | XI p9 ->
                 (match p9 with
                  | XI p10 ->
                    (match p10 with
                     | XI p11 -> (match p11 with
                                  | XH -> Some Xf2
                                  | _ -> None)
                     | XO p11 -> (match p11 with
                                  | XH -> Some Xb2
                                  | _ -> None)
                     | XH -> Some X72)
                  | XO p10 ->
                    (match p10 with
                     | XI p11 -> (match p11 with
                                  | XH -> Some Xd2
                                  | _ -> None)
                     | XO p11 -> (match p11 with
                                  | XH -> Some X92
                                  | _ -> None)
                     | XH -> Some X52)
                  | XH -> Some X32)
               | XO p9 ->
                 (match p9 with
                  | XI p10 ->
                    (match p10 with
                     | XI p11 -> (match p11 with
                                  | XH -> Some Xe2
                                  | _ -> None)
                     | XO p11 -> (match p11 with
                                  | XH -> Some Xa2
                                  | _ -> None)
                     | XH -> Some X62)
                  | XO p10 ->
                    (match p10 with
                     | XI p11 -> (match p11 with
                                  | XH -> Some Xc2
                                  | _ -> None)
                     | XO p11 -> (match p11 with
                                  | XH -> Some X82
                                  | _ -> None)
                     | XH -> Some X42)
                  | XH -> Some X22)
               | XH -> Some X12)
            | XH -> Some X0a)
         | XH -> Some X06)
      | XO p6 ->
        (match p6 with
         | XI p7 ->
           (match p7 with
            | XI p8 ->
              (match p8 with
               | XI p9 ->
                 (match p9 with
                  | XI p10 ->
                    (match p10 with
                     | XI p11 -> (match p11 with
                                  | XH -> Some Xfc
                                  | _ -> None)
                     | XO p11 -> (match p11 with
                                  | XH -> Some Xbc
                                  | _ -> None)
                     | XH -> Some X7c)
                  | XO p10 ->
                    (match p10 with
                     | XI p11 -> (match p11 with
                                  | XH -> Some Xdc
                                  | _ -> None)
                     | XO p11 -> (match p11 with
                                  | XH -> Some X9c
                                  | _ -> None)
                     | XH -> Some X5c)
                  | XH -> Some X3c)
               | XO p9 ->
                 (match p9 with
                  | XI p10 ->
                    (match p10 with
                     | XI p11 -> (match p11 with
                                  | XH -> Some Xec
                                  | _ -> None)
                     | XO p11 -> (match p11 with
                                  | XH -> Some Xac
                                  | _ -> None)
                     | XH -> Some X6c)
                  | XO p10 ->
                    (match p10 with
                     | XI p11 -> (match p11 with
                                  | XH -> Some Xcc
                                  | _ -> None)
                     | XO p11 -> (match p11 with
                                  | XH -> Some X8c
                                  | _ -> None)
                     | XH -> Some X4c)
                  | XH -> Some X2c)
               | XH -> Some X1c)
            | XO p8 ->
              (match p8 with
               | XI p9 ->
                 (match p9 with
                  | XI p10 ->
                    (match p10 with
                     | XI p11 -> (match p11 with
                                  | XH -> Some Xf4
                                  | _ -> None)
                     | XO p11 -> (match p11 with
                                  | XH -> Some Xb4
                                  | _ -> None)
                     | XH -> Some X74)
                  | XO p10 ->
                    (match p10 with
                     | XI p11 -> (match p11 with
                                  | XH -> Some Xd4
                                  | _ -> None)
                     | XO p11 -> (match p11 with
                                  | XH -> Some X94
                                  | _ -> None)
                     | XH -> Some X54)
                  | XH -> Some X34)
               | XO p9 ->
                 (match p9 with
                  | XI p10 ->
                    (match p10 with
                     | XI p11 -> (match p11 with
                                  | XH -> Some Xe4
                                  | _ -> None)
                     | XO p11 -> (match p11 with
                                  | XH -> Some Xa4
                                  | _ -> None)
                     | XH -> Some X64)
                  | XO p10 ->
                    (match p10 with
                     | XI p11 -> (match p11 with
                                  | XH -> Some Xc4
                                  | _ -> None)
                     | XO p11 -> (match p11 with
                                  | XH -> Some X84
                                  | _ -> None)
                     | XH -> Some X44)
                  | XH -> Some X24)
               | XH -> Some X14)
            | XH -> Some X0c)
         | XO p7 ->
           (match p7 with
            | XI p8 ->
              (match p8 with
               | XI p9 ->
                 (match p9 with
                  | XI p10 ->
                    (match p10 with
                     | XI p11 -> (match p11 with
                                  | XH -> Some Xf8
                                  | _ -> None)
                     | XO p11 -> (match p11 with
                                  | XH -> Some Xb8
                                  | _ -> None)
                     | XH -> Some X78)
                  | XO p10 ->
                    (match p10 with
                     | XI p11 -> (match p11 with
                                  | XH -> Some Xd8
                                  | _ -> None)
                     | XO p11 -> (match p11 with
                                  | XH -> Some X98
                                  | _ -> None)
                     | XH -> Some X58)
                  | XH -> Some X38)
               | XO p9 ->
                 (match p9 with
                  | XI p10 ->
                    (match p10 with
                     | XI p11 -> (match p11 with
                                  | XH -> Some Xe8
                                  | _ -> None)
                     | XO p11 -> (match p11 with
                                  | XH -> Some Xa8
                                  | _ -> None)
                     | XH -> Some X68)
                  | XO p10 ->
                    (match p10 with
                     | XI p11 -> (match p11 with
                                  | XH -> Some Xc8
                                  | _ -> None)
                     | XO p11 -> (match p11 with
                                  | XH -> Some X88
                                  | _ -> None)
                     | XH -> Some X48)
                  | XH -> Some X28)
               | XH -> Some X18)
            | XO p8 ->
              (match p8 with
               | XI p9 ->
                 (match p9 with
                  | XI p10 ->
                    (match p10 with
                     | XI p11 -> (match p11 with
                                  | XH -> Some Xf0
                                  | _ -> None)
                     | XO p11 -> (match p11 with
                                  | XH -> Some Xb0
                                  | _ -> None)
                     | XH -> Some X70)
                  | XO p10 ->
                    (match p10 with
                     | XI p11 -> (match p11 with
                                  | XH -> Some Xd0
                                  | _ -> None)
                     | XO p11 -> (match p11 with
                                  | XH -> Some X90
                                  | _ -> None)
                     | XH -> Some X50)
                  | XH -> Some X30)
               | XO p9 ->
                 (match p9 with
                  | XI p10 ->
                    (match p10 with
                     | XI p11 -> (match p11 with
                                  | XH -> Some Xe0
                                  | _ -> None)
                     | XO p11 -> (match p11 with
                                  | XH -> Some Xa0
                                  | _ -> None)
                     | XH -> Some X60)
                  | XO p10 ->
                    (match p10 with
                     | XI p11 -> (match p11 with
                                  | XH -> Some Xc0
                                  | _ -> None)
                     | XO p11 -> (match p11 with
                                  | XH -> Some X80
                                  | _ -> None)
                     | XH -> Some X40)
                  | XH -> Some X20)
               | XH -> Some X10)
            | XH -> Some X08)
         | XH -> Some X04)
      | XH -> Some X02)
   | XH -> Some X01)

type ascii =
| Ascii of bool * bool * bool * bool * bool * bool * bool * bool

(** val byte_of_ascii : ascii -> byte **)

let byte_of_ascii = function
| Ascii (b0, b1, b2, b3, b4, b5, b6, b7) ->
  of_bits (b0, (b1, (b2, (b3, (b4, (b5, (b6, b7)))))))

type string =
| EmptyString
| String of ascii * string

(** val list_ascii_of_string : string -> ascii list **)

let rec list_ascii_of_string = function
| EmptyString -> []
| String (ch, s0) -> ch :: (list_ascii_of_string s0)

(** val list_byte_of_string : string -> byte list **)

let list_byte_of_string s =
  map byte_of_ascii (list_ascii_of_string s)

type bytes = byte list

(** val zb : byte -> z **)

let zb b =
  Z.of_N (to_N0 b)

(** val bZ : z -> byte **)

let bZ z0 =
  match of_N0
          (Z.to_N
            (Z.modulo z0 (Zpos (XO (XO (XO (XO (XO (XO (XO (XO XH))))))))))) with
  | Some b -> b
  | None -> X00

(** val tag : string -> bytes **)

let tag =
  list_byte_of_string

(** val wrap_s : z -> z -> z **)

let wrap_s bits z0 =
  let m0 = Z.modulo z0 (Z.pow (Zpos (XO XH)) bits) in
  if Z.ltb m0 (Z.pow (Zpos (XO XH)) (Z.sub bits (Zpos XH)))
  then m0
  else Z.sub m0 (Z.pow (Zpos (XO XH)) bits)

(** val i16_max : z **)

let i16_max =
  Zpos (XI (XI (XI (XI (XI (XI (XI (XI (XI (XI (XI (XI (XI (XI
    XH))))))))))))))

(** val i32_max : z **)

let i32_max =
  Zpos (XI (XI (XI (XI (XI (XI (XI (XI (XI (XI (XI (XI (XI (XI (XI (XI (XI
    (XI (XI (XI (XI (XI (XI (XI (XI (XI (XI (XI (XI (XI
    XH))))))))))))))))))))))))))))))

(** val i32_min : z **)

let i32_min =
  Zneg (XO (XO (XO (XO (XO (XO (XO (XO (XO (XO (XO (XO (XO (XO (XO (XO (XO
    (XO (XO (XO (XO (XO (XO (XO (XO (XO (XO (XO (XO (XO (XO
    XH)))))))))))))))))))))))))))))))

(** val i64_max : z **)

let i64_max =
  Zpos (XI (XI (XI (XI (XI (XI (XI (XI (XI (XI (XI (XI (XI (XI (XI (XI (XI
    (XI (XI (XI (XI (XI (XI (XI (XI (XI (XI (XI (XI (XI (XI (XI (XI (XI (XI
    (XI (XI (XI (XI (XI (XI (XI (XI (XI (XI (XI (XI (XI (XI (XI (XI (XI (XI
    (XI (XI (XI (XI (XI (XI (XI (XI (XI
    XH))))))))))))))))))))))))))))))))))))))))))))))))))))))))))))))

(** val i64_min : z **)

let i64_min =
  Zneg (XO (XO (XO (XO (XO (XO (XO (XO (XO (XO (XO (XO (XO (XO (XO (XO (XO
    (XO (XO (XO (XO (XO (XO (XO (XO (XO (XO (XO (XO (XO (XO (XO (XO (XO (XO
    (XO (XO (XO (XO (XO (XO (XO (XO (XO (XO (XO (XO (XO (XO (XO (XO (XO (XO
    (XO (XO (XO (XO (XO (XO (XO (XO (XO (XO
    XH)))))))))))))))))))))))))))))))))))))))))))))))))))))))))))))))

(** val be_enc : nat -> z -> bytes **)

let rec be_enc n0 z0 =
  match n0 with
  | O -> []
  | S k ->
    (bZ
      (Z.div z0
        (Z.pow (Zpos (XO XH)) (Z.mul (Zpos (XO (XO (XO XH)))) (Z.of_nat k))))) :: 
      (be_enc k z0)

(** val be_dec_acc : bytes -> z -> z **)

let rec be_dec_acc bs acc =
  match bs with
  | [] -> acc
  | b :: r ->
    be_dec_acc r
      (Z.add (Z.mul acc (Zpos (XO (XO (XO (XO (XO (XO (XO (XO XH))))))))))
        (zb b))

(** val be_dec_u : bytes -> z **)

let be_dec_u bs =
  be_dec_acc bs Z0

(** val be_dec_s : bytes -> z **)

let be_dec_s bs =
  wrap_s (Z.mul (Zpos (XO (XO (XO XH)))) (Z.of_nat (length bs))) (be_dec_u bs)

(** val enc_i8 : z -> bytes **)

let enc_i8 z0 =
  be_enc (S O) z0

(** val enc_i16 : z -> bytes **)

let enc_i16 z0 =
  be_enc (S (S O)) z0

(** val enc_i32 : z -> bytes **)

let enc_i32 z0 =
  be_enc (S (S (S (S O)))) z0

(** val enc_i64 : z -> bytes **)

let enc_i64 z0 =
  be_enc (S (S (S (S (S (S (S (S O)))))))) z0

type ioerr =
| IoUnexpectedEof
| IoWriteZero
| IoTimedOut
| IoConnRefused
| IoOther

type err =
| EIo of ioerr
| EInvalidSnappy
| EKafka of z
| ETopicPartition of bytes * z * z
| EUnsupportedProtocol
| EUnsupportedCompression
| EUnexpectedEOF
| ECodec
| EStringDecode
| ENoHostReachable
| ENoTopicsAssigned
| EInvalidDuration
| EUnsetOffsetStorage
| EUnsetGroupId
| EOutOfScript
| EOutOfFuel

type 'a res =
| Ok of 'a
| Err of err
| Panic of bytes

(** val bind : 'a1 res -> ('a1 -> 'a2 res) -> 'a2 res **)

let bind r f =
  match r with
  | Ok a -> f a
  | Err e -> Err e
  | Panic w -> Panic w

(** val bytes_eqb : bytes -> bytes -> bool **)

let rec bytes_eqb a b =
  match a with
  | [] -> (match b with
           | [] -> true
           | _ :: _ -> false)
  | x :: a' ->
    (match b with
     | [] -> false
     | y :: b' -> (&&) (eqb0 x y) (bytes_eqb a' b'))

(** val bytes_cmp : bytes -> bytes -> comparison **)

let rec bytes_cmp a b =
  match a with
  | [] -> (match b with
           | [] -> Eq
           | _ :: _ -> Lt)
  | x :: a' ->
    (match b with
     | [] -> Gt
     | y :: b' ->
       (match Z.compare (zb x) (zb y) with
        | Eq -> bytes_cmp a' b'
        | x0 -> x0))

(** val bytes_ltb : bytes -> bytes -> bool **)

let bytes_ltb a b =
  match bytes_cmp a b with
  | Lt -> true
  | _ -> false

(** val zread : nat -> bytes -> (bytes * bytes) res **)

let zread n0 bs =
  if Nat.ltb (length bs) n0
  then Err EUnexpectedEOF
  else Ok ((firstn n0 bs), (skipn n0 bs))

(** val zread_i8 : bytes -> (z * bytes) res **)

let zread_i8 bs =
  bind (zread (S O) bs) (fun x0 -> let (x, r) = x0 in Ok ((be_dec_s x), r))

(** val zread_i16 : bytes -> (z * bytes) res **)

let zread_i16 bs =
  bind (zread (S (S O)) bs) (fun x0 ->
    let (x, r) = x0 in Ok ((be_dec_s x), r))

(** val zread_i32 : bytes -> (z * bytes) res **)

let zread_i32 bs =
  bind (zread (S (S (S (S O)))) bs) (fun x0 ->
    let (x, r) = x0 in Ok ((be_dec_s x), r))

(** val zread_i64 : bytes -> (z * bytes) res **)

let zread_i64 bs =
  bind (zread (S (S (S (S (S (S (S (S O)))))))) bs) (fun x0 ->
    let (x, r) = x0 in Ok ((be_dec_s x), r))

(** val zread_bytes : bytes -> (bytes * bytes) res **)

let zread_bytes bs =
  bind (zread_i32 bs) (fun x ->
    let (len, r) = x in
    if Z.leb len Z0
    then Ok ([], r)
    else if Z.ltb (Z.of_nat (length r)) len
         then Err EUnexpectedEOF
         else zread (Z.to_nat len) r)

(** val zread_array_len : bytes -> (z * bytes) res **)

let zread_array_len bs =
  bind (zread_i32 bs) (fun x ->
    let (len, r) = x in Ok ((if Z.ltb len Z0 then Z0 else len), r))

(** val aPI_KEY_PRODUCE : z **)

let aPI_KEY_PRODUCE =
  Z0

(** val aPI_KEY_FETCH : z **)

let aPI_KEY_FETCH =
  Zpos XH

(** val aPI_KEY_OFFSET : z **)

let aPI_KEY_OFFSET =
  Zpos (XO XH)

(** val aPI_KEY_METADATA : z **)

let aPI_KEY_METADATA =
  Zpos (XI XH)

(** val aPI_KEY_OFFSET_COMMIT : z **)

let aPI_KEY_OFFSET_COMMIT =
  Zpos (XO (XO (XO XH)))

(** val aPI_KEY_OFFSET_FETCH : z **)

let aPI_KEY_OFFSET_FETCH =
  Zpos (XI (XO (XO XH)))

(** val aPI_KEY_GROUP_COORDINATOR : z **)

let aPI_KEY_GROUP_COORDINATOR =
  Zpos (XO (XI (XO XH)))

(** val aPI_VERSION : z **)

let aPI_VERSION =
  Z0

(** val lIST_OFFSET_V1 : z **)

let lIST_OFFSET_V1 =
  Zpos XH

(** val oFFSET_FETCH_V0 : z **)

let oFFSET_FETCH_V0 =
  Z0

(** val oFFSET_FETCH_V1 : z **)

let oFFSET_FETCH_V1 =
  Zpos XH

(** val oFFSET_COMMIT_V0 : z **)

let oFFSET_COMMIT_V0 =
  Z0

(** val oFFSET_COMMIT_V1 : z **)

let oFFSET_COMMIT_V1 =
  Zpos XH

(** val oFFSET_COMMIT_V2 : z **)

let oFFSET_COMMIT_V2 =
  Zpos (XO XH)

(** val mESSAGE_MAGIC_BYTE : z **)

let mESSAGE_MAGIC_BYTE =
  Z0

(** val cOMPRESSION_NONE : z **)

let cOMPRESSION_NONE =
  Z0

(** val cOMPRESSION_GZIP : z **)

let cOMPRESSION_GZIP =
  Zpos XH

(** val cOMPRESSION_SNAPPY : z **)

let cOMPRESSION_SNAPPY =
  Zpos (XO XH)

(** val aCKS_One : z **)

let aCKS_One =
  Zpos XH

(** val fETCH_OFFSET_EARLIEST : z **)

let fETCH_OFFSET_EARLIEST =
  Zneg (XO XH)

(** val fETCH_OFFSET_LATEST : z **)

let fETCH_OFFSET_LATEST =
  Zneg XH

(** val sTORAGE_ZK_FETCH_VERSION : z **)

let sTORAGE_ZK_FETCH_VERSION =
  oFFSET_FETCH_V0

(** val sTORAGE_KAFKA_FETCH_VERSION : z **)

let sTORAGE_KAFKA_FETCH_VERSION =
  oFFSET_FETCH_V1

(** val sTORAGE_ZK_COMMIT_VERSION : z **)

let sTORAGE_ZK_COMMIT_VERSION =
  oFFSET_COMMIT_V0

(** val sTORAGE_KAFKA_COMMIT_VERSION : z **)

let sTORAGE_KAFKA_COMMIT_VERSION =
  oFFSET_COMMIT_V1

(** val dEFAULT_FETCH_MAX_WAIT_TIME_MILLIS : z **)

let dEFAULT_FETCH_MAX_WAIT_TIME_MILLIS =
  Zpos (XO (XO (XI (XO (XO (XI XH))))))

(** val dEFAULT_FETCH_MIN_BYTES : z **)

let dEFAULT_FETCH_MIN_BYTES =
  Zpos (XO (XO (XO (XO (XO (XO (XO (XO (XO (XO (XO (XO XH))))))))))))

(** val dEFAULT_FETCH_MAX_BYTES_PER_PARTITION : z **)

let dEFAULT_FETCH_MAX_BYTES_PER_PARTITION =
  Zpos (XO (XO (XO (XO (XO (XO (XO (XO (XO (XO (XO (XO (XO (XO (XO
    XH)))))))))))))))

(** val dEFAULT_RETRY_BACKOFF_TIME_MILLIS : z **)

let dEFAULT_RETRY_BACKOFF_TIME_MILLIS =
  Zpos (XO (XO (XI (XO (XO (XI XH))))))

(** val dEFAULT_CONNECTION_IDLE_TIMEOUT_MILLIS : z **)

let dEFAULT_CONNECTION_IDLE_TIMEOUT_MILLIS =
  Zpos (XO (XO (XO (XO (XO (XI (XI (XO (XI (XO (XI (XI (XI (XI (XO (XO (XO
    (XO (XO XH)))))))))))))))))))

(** val dEFAULT_RETRY_MAX_ATTEMPTS : z **)

let dEFAULT_RETRY_MAX_ATTEMPTS =
  Zpos (XO (XO (XO (XO (XI (XI (XO (XI (XO (XO XH))))))))))

(** val dEFAULT_FETCH_CRC_VALIDATION : bool **)

let dEFAULT_FETCH_CRC_VALIDATION =
  true

(** val dEFAULT_COMPRESSION : z **)

let dEFAULT_COMPRESSION =
  cOMPRESSION_NONE

(** val cORRELATION_MODULUS : z **)

let cORRELATION_MODULUS =
  Z.pow (Zpos (XO XH)) (Zpos (XO (XI (XI (XI XH)))))

(** val dEFAULT_RETRY_MAX_BYTES_LIMIT : z **)

let dEFAULT_RETRY_MAX_BYTES_LIMIT =
  Z0

(** val dEFAULT_FALLBACK_OFFSET : z **)

let dEFAULT_FALLBACK_OFFSET =
  fETCH_OFFSET_LATEST

(** val dEFAULT_ACK_TIMEOUT_MILLIS : z **)

let dEFAULT_ACK_TIMEOUT_MILLIS =
  Zpos (XO (XO (XO (XO (XI (XI (XO (XO (XI (XO (XI (XO (XI (XI
    XH))))))))))))))

(** val dEFAULT_REQUIRED_ACKS : z **)

let dEFAULT_REQUIRED_ACKS =
  aCKS_One

(** val inr : z -> z -> z -> bool **)

let inr lo hi x =
  (&&) (Z.leb lo x) (Z.leb x hi)

(** val utf8_go : nat -> bytes -> bool **)

let rec utf8_go fuel bs =
  match fuel with
  | O -> (match bs with
          | [] -> true
          | _ :: _ -> false)
  | S f ->
    (match bs with
     | [] -> true
     | b0 :: r ->
       let x = zb b0 in
       if Z.ltb x (Zpos (XO (XO (XO (XO (XO (XO (XO XH))))))))
       then utf8_go f r
       else if inr (Zpos (XO (XI (XO (XO (XO (XO (XI XH)))))))) (Zpos (XI (XI
                 (XI (XI (XI (XO (XI XH)))))))) x
            then (match r with
                  | [] -> false
                  | b1 :: r' ->
                    (&&)
                      (inr (Zpos (XO (XO (XO (XO (XO (XO (XO XH)))))))) (Zpos
                        (XI (XI (XI (XI (XI (XI (XO XH)))))))) (zb b1))
                      (utf8_go f r'))
            else if inr (Zpos (XO (XO (XO (XO (XO (XI (XI XH)))))))) (Zpos
                      (XI (XI (XI (XI (XO (XI (XI XH)))))))) x
                 then (match r with
                       | [] -> false
                       | b1 :: l ->
                         (match l with
                          | [] -> false
                          | b2 :: r' ->
                            (&&)
                              ((&&)
                                (if Z.eqb x (Zpos (XO (XO (XO (XO (XO (XI (XI
                                      XH))))))))
                                 then inr (Zpos (XO (XO (XO (XO (XO (XI (XO
                                        XH)))))))) (Zpos (XI (XI (XI (XI (XI
                                        (XI (XO XH)))))))) (zb b1)
                                 else if Z.eqb x (Zpos (XI (XO (XI (XI (XO
                                           (XI (XI XH))))))))
                                      then inr (Zpos (XO (XO (XO (XO (XO (XO
                                             (XO XH)))))))) (Zpos (XI (XI (XI
                                             (XI (XI (XO (XO XH))))))))
                                             (zb b1)
                                      else inr (Zpos (XO (XO (XO (XO (XO (XO
                                             (XO XH)))))))) (Zpos (XI (XI (XI
                                             (XI (XI (XI (XO XH))))))))
                                             (zb b1))
                                (inr (Zpos (XO (XO (XO (XO (XO (XO (XO
                                  XH)))))))) (Zpos (XI (XI (XI (XI (XI (XI
                                  (XO XH)))))))) (zb b2))) (utf8_go f r')))
                 else if inr (Zpos (XO (XO (XO (XO (XI (XI (XI XH))))))))
                           (Zpos (XO (XO (XI (XO (XI (XI (XI XH)))))))) x
                      then (match r with
                            | [] -> false
                            | b1 :: l ->
                              (match l with
                               | [] -> false
                               | b2 :: l0 ->
                                 (match l0 with
                                  | [] -> false
                                  | b3 :: r' ->
                                    (&&)
                                      ((&&)
                                        ((&&)
                                          (if Z.eqb x (Zpos (XO (XO (XO (XO
                                                (XI (XI (XI XH))))))))
                                           then inr (Zpos (XO (XO (XO (XO (XI
                                                  (XO (XO XH)))))))) (Zpos
                                                  (XI (XI (XI (XI (XI (XI (XO
                                                  XH)))))))) (zb b1)
                                           else if Z.eqb x (Zpos (XO (XO (XI
                                                     (XO (XI (XI (XI
                                                     XH))))))))
                                                then inr (Zpos (XO (XO (XO
                                                       (XO (XO (XO (XO
                                                       XH)))))))) (Zpos (XI
                                                       (XI (XI (XI (XO (XO
                                                       (XO XH)))))))) 
                                                       (zb b1)
                                                else inr (Zpos (XO (XO (XO
                                                       (XO (XO (XO (XO
                                                       XH)))))))) (Zpos (XI
                                                       (XI (XI (XI (XI (XI
                                                       (XO XH)))))))) 
                                                       (zb b1))
                                          (inr (Zpos (XO (XO (XO (XO (XO (XO
                                            (XO XH)))))))) (Zpos (XI (XI (XI
                                            (XI (XI (XI (XO XH))))))))
                                            (zb b2)))
                                        (inr (Zpos (XO (XO (XO (XO (XO (XO
                                          (XO XH)))))))) (Zpos (XI (XI (XI
                                          (XI (XI (XI (XO XH)))))))) 
                                          (zb b3))) (utf8_go f r'))))
                      else false)

(** val utf8_valid : bytes -> bool **)

let utf8_valid bs =
  utf8_go (length bs) bs

(** val ulen : 'a1 list -> z **)

let ulen l =
  Z.of_nat (length l)

(** val enc_str : bytes -> bytes res **)

let enc_str s =
  if Z.leb (ulen s) i16_max then Ok (app (enc_i16 (ulen s)) s) else Err ECodec

(** val enc_bytes : bytes -> bytes res **)

let enc_bytes b =
  if Z.leb (ulen b) i32_max then Ok (app (enc_i32 (ulen b)) b) else Err ECodec

(** val enc_opt_bytes : bytes option -> bytes res **)

let enc_opt_bytes = function
| Some b -> enc_bytes b
| None -> Ok (enc_i32 (Zneg XH))

(** val enc_all : ('a1 -> bytes res) -> 'a1 list -> bytes res **)

let rec enc_all f = function
| [] -> Ok []
| x :: r -> bind (f x) (fun a -> bind (enc_all f r) (fun b -> Ok (app a b)))

(** val enc_array : ('a1 -> bytes res) -> 'a1 list -> bytes res **)

let enc_array f xs =
  if Z.leb (ulen xs) i32_max
  then bind (enc_all f xs) (fun body -> Ok (app (enc_i32 (ulen xs)) body))
  else Err ECodec

(** val enc_array_unchecked : ('a1 -> bytes res) -> 'a1 list -> bytes res **)

let enc_array_unchecked f xs =
  bind (enc_all f xs) (fun body -> Ok (app (enc_i32 (ulen xs)) body))

type 'a dec = bytes -> ('a * bytes) res

(** val cread : nat -> bytes dec **)

let cread n0 bs =
  if Nat.ltb (length bs) n0
  then Err (EIo IoUnexpectedEof)
  else Ok ((firstn n0 bs), (skipn n0 bs))

(** val dec_i16 : z dec **)

let dec_i16 bs =
  bind (cread (S (S O)) bs) (fun x0 ->
    let (x, r) = x0 in Ok ((be_dec_s x), r))

(** val dec_i32 : z dec **)

let dec_i32 bs =
  bind (cread (S (S (S (S O)))) bs) (fun x0 ->
    let (x, r) = x0 in Ok ((be_dec_s x), r))

(** val dec_i64 : z dec **)

let dec_i64 bs =
  bind (cread (S (S (S (S (S (S (S (S O)))))))) bs) (fun x0 ->
    let (x, r) = x0 in Ok ((be_dec_s x), r))

(** val dec_string : bytes dec **)

let dec_string bs =
  bind (dec_i16 bs) (fun x ->
    let (len, r) = x in
    if Z.leb len Z0
    then Ok ([], r)
    else let n0 = Z.to_nat len in
         let s = firstn n0 r in
         if (&&) (Nat.eqb (length s) n0) (utf8_valid s)
         then Ok (s, (skipn n0 r))
         else Err EUnexpectedEOF)

(** val alloc_limit : z **)

let alloc_limit =
  Z.pow (Zpos (XO XH)) (Zpos (XO (XI (XI (XI XH)))))

(** val alloc_panic : 'a1 res **)

let alloc_panic =
  Panic
    (tag (String ((Ascii (true, false, false, false, false, true, true,
      false)), (String ((Ascii (false, false, true, true, false, true, true,
      false)), (String ((Ascii (false, false, true, true, false, true, true,
      false)), (String ((Ascii (true, true, true, true, false, true, true,
      false)), (String ((Ascii (true, true, false, false, false, true, true,
      false)), EmptyString)))))))))))

(** val dec_many : 'a1 dec -> nat -> z -> bytes -> ('a1 list * bytes) res **)

let rec dec_many d fuel count bs =
  if Z.leb count Z0
  then Ok ([], bs)
  else (match fuel with
        | O -> Err EOutOfFuel
        | S f ->
          bind (d bs) (fun x0 ->
            let (x, r) = x0 in
            bind (dec_many d f (Z.sub count (Zpos XH)) r) (fun x1 ->
              let (xs, r') = x1 in Ok ((x :: xs), r'))))

(** val dec_vec : z -> 'a1 dec -> 'a1 list dec **)

let dec_vec elem_size d bs =
  bind (dec_i32 bs) (fun x ->
    let (len, r) = x in
    if Z.leb len Z0
    then Ok ([], r)
    else if Z.leb alloc_limit (Z.mul len elem_size)
         then alloc_panic
         else dec_many d (S (length r)) len r)

(** val sz_i32 : z **)

let sz_i32 =
  Zpos (XO (XO XH))

(** val sz_i64 : z **)

let sz_i64 =
  Zpos (XO (XO (XO XH)))

(** val poly : n **)

let poly =
  Npos (XO (XO (XO (XO (XO (XI (XO (XO (XI (XI (XO (XO (XO (XO (XO (XI (XO
    (XO (XO (XI (XI (XI (XO (XI (XI (XO (XI (XI (XO (XI (XI
    XH)))))))))))))))))))))))))))))))

(** val t : n -> n **)

let t c =
  N.coq_lxor (N.shiftr c (Npos XH)) (if N.testbit c N0 then poly else N0)

(** val step_bit : n -> bool -> n **)

let step_bit c b =
  t (N.coq_lxor c (N.b2n b))

(** val bits_of_byte : byte -> bool list **)

let bits_of_byte b =
  map (N.testbit (to_N0 b)) (N0 :: ((Npos XH) :: ((Npos (XO XH)) :: ((Npos
    (XI XH)) :: ((Npos (XO (XO XH))) :: ((Npos (XI (XO XH))) :: ((Npos (XO
    (XI XH))) :: ((Npos (XI (XI XH))) :: []))))))))

(** val bits_of_bytes : bytes -> bool list **)

let bits_of_bytes bs =
  flat_map bits_of_byte bs

(** val crc_update : n -> bytes -> n **)

let crc_update c bs =
  fold_left step_bit (bits_of_bytes bs) c

(** val crc32 : bytes -> z **)

let crc32 bs =
  Z.of_N
    (N.coq_lxor
      (crc_update (Npos (XI (XI (XI (XI (XI (XI (XI (XI (XI (XI (XI (XI (XI
        (XI (XI (XI (XI (XI (XI (XI (XI (XI (XI (XI (XI (XI (XI (XI (XI (XI
        (XI XH)))))))))))))))))))))))))))))))) bs) (Npos (XI (XI (XI (XI (XI
      (XI (XI (XI (XI (XI (XI (XI (XI (XI (XI (XI (XI (XI (XI (XI (XI (XI (XI
      (XI (XI (XI (XI (XI (XI (XI (XI XH)))))))))))))))))))))))))))))))))

type codecs = { gz_compress : (bytes -> bytes);
                sn_compress : (bytes -> bytes);
                gz_decompress : (bytes -> bytes option); debug_build : 
                bool }

(** val enc_header : z -> z -> z -> bytes -> bytes res **)

let enc_header key ver corr client_id0 =
  bind (enc_str client_id0) (fun c -> Ok
    (app (enc_i16 key) (app (enc_i16 ver) (app (enc_i32 corr) c))))

(** val frame : bytes -> bytes **)

let frame payload =
  app (enc_i32 (ulen payload)) payload

(** val enc_metadata_req : z -> bytes -> bytes list -> bytes res **)

let enc_metadata_req corr client_id0 topics =
  bind (enc_header aPI_KEY_METADATA aPI_VERSION corr client_id0) (fun h ->
    bind (enc_array enc_str topics) (fun ts -> Ok (app h ts)))

(** val tp_add :
    (bytes * 'a1 list) list -> bytes -> 'a1 -> (bytes * 'a1 list) list **)

let rec tp_add tps topic p =
  match tps with
  | [] -> (topic, (p :: [])) :: []
  | p0 :: r ->
    let (t0, ps) = p0 in
    if bytes_eqb t0 topic
    then (t0, (app ps (p :: []))) :: r
    else (t0, ps) :: (tp_add r topic p)

(** val enc_tps :
    ('a1 -> bytes res) -> (bytes * 'a1 list) list -> bytes res **)

let enc_tps encp tps =
  enc_array (fun pat ->
    let (t0, ps) = pat in
    bind (enc_str t0) (fun n0 ->
      bind (enc_array encp ps) (fun b -> Ok (app n0 b)))) tps

(** val enc_offset_req :
    z -> bytes -> (bytes * (z * z) list) list -> bytes res **)

let enc_offset_req corr client_id0 tps =
  bind (enc_header aPI_KEY_OFFSET aPI_VERSION corr client_id0) (fun h ->
    bind
      (enc_tps (fun pat ->
        let (p, time) = pat in
        Ok (app (enc_i32 p) (app (enc_i64 time) (enc_i32 (Zpos XH))))) tps)
      (fun b -> Ok (app h (app (enc_i32 (Zneg XH)) b))))

(** val enc_list_offsets_req :
    z -> bytes -> (bytes * (z * z) list) list -> bytes res **)

let enc_list_offsets_req corr client_id0 tps =
  bind (enc_header aPI_KEY_OFFSET lIST_OFFSET_V1 corr client_id0) (fun h ->
    bind
      (enc_tps (fun pat ->
        let (p, time) = pat in Ok (app (enc_i32 p) (enc_i64 time))) tps)
      (fun b -> Ok (app h (app (enc_i32 (Zneg XH)) b))))

type fetch_parts = (z * (z * z)) list

type fetch_tps = (bytes * fetch_parts) list

(** val fp_insert : fetch_parts -> z -> (z * z) -> fetch_parts **)

let rec fp_insert ps p v =
  match ps with
  | [] -> (p, v) :: []
  | p0 :: r ->
    let (q, w) = p0 in
    if Z.eqb q p then (q, v) :: r else (q, w) :: (fp_insert r p v)

(** val fetch_add : fetch_tps -> bytes -> z -> z -> z -> fetch_tps **)

let rec fetch_add tps topic p off maxb =
  match tps with
  | [] -> (topic, ((p, (off, maxb)) :: [])) :: []
  | p0 :: r ->
    let (t0, ps) = p0 in
    if bytes_eqb t0 topic
    then (t0, (fp_insert ps p (off, maxb))) :: r
    else (t0, ps) :: (fetch_add r topic p off maxb)

(** val enc_fetch_req : z -> bytes -> z -> z -> fetch_tps -> bytes res **)

let enc_fetch_req corr client_id0 max_wait min_bytes tps =
  bind (enc_header aPI_KEY_FETCH aPI_VERSION corr client_id0) (fun h ->
    bind
      (enc_array_unchecked (fun pat ->
        let (t0, ps) = pat in
        bind (enc_str t0) (fun n0 ->
          bind
            (enc_array_unchecked (fun pat0 ->
              let (p, y) = pat0 in
              let (off, maxb) = y in
              Ok (app (enc_i32 p) (app (enc_i64 off) (enc_i32 maxb)))) ps)
            (fun pb -> Ok (app n0 pb)))) tps) (fun b -> Ok
      (app h
        (app (enc_i32 (Zneg XH))
          (app (enc_i32 max_wait) (app (enc_i32 min_bytes) b))))))

type pmsg = bytes option * bytes option

(** val enc_message : z -> z -> pmsg -> bytes res **)

let enc_message magic attr m0 =
  bind (enc_opt_bytes (fst m0)) (fun k ->
    bind (enc_opt_bytes (snd m0)) (fun v ->
      let covered = app (enc_i8 magic) (app (enc_i8 attr) (app k v)) in
      Ok
      (app (enc_i64 Z0)
        (app (enc_i32 (Z.add (Zpos (XO (XO XH))) (ulen covered)))
          (app (enc_i32 (crc32 covered)) covered)))))

(** val enc_messages : pmsg list -> bytes res **)

let enc_messages ms =
  enc_all (enc_message mESSAGE_MAGIC_BYTE Z0) ms

(** val enc_partition_produce : codecs -> z -> z -> pmsg list -> bytes res **)

let enc_partition_produce cz compression0 p ms =
  bind (enc_messages ms) (fun buf ->
    bind
      (if Z.eqb compression0 cOMPRESSION_NONE
       then Ok buf
       else if Z.eqb compression0 cOMPRESSION_GZIP
            then enc_message mESSAGE_MAGIC_BYTE cOMPRESSION_GZIP (None, (Some
                   (cz.gz_compress buf)))
            else enc_message mESSAGE_MAGIC_BYTE cOMPRESSION_SNAPPY (None,
                   (Some (cz.sn_compress buf)))) (fun buf' ->
      bind (enc_bytes buf') (fun b -> Ok (app (enc_i32 p) b))))

type produce_parts = (z * pmsg list) list

type produce_tps = (bytes * produce_parts) list

(** val pp_add : produce_parts -> z -> pmsg -> produce_parts **)

let rec pp_add ps p m0 =
  match ps with
  | [] -> (p, (m0 :: [])) :: []
  | p0 :: r ->
    let (q, ms) = p0 in
    if Z.eqb q p
    then (q, (app ms (m0 :: []))) :: r
    else (q, ms) :: (pp_add r p m0)

(** val produce_add : produce_tps -> bytes -> z -> pmsg -> produce_tps **)

let rec produce_add tps topic p m0 =
  match tps with
  | [] -> (topic, ((p, (m0 :: [])) :: [])) :: []
  | p0 :: r ->
    let (t0, ps) = p0 in
    if bytes_eqb t0 topic
    then (t0, (pp_add ps p m0)) :: r
    else (t0, ps) :: (produce_add r topic p m0)

(** val enc_produce_req :
    codecs -> z -> bytes -> z -> z -> z -> produce_tps -> bytes res **)

let enc_produce_req cz corr client_id0 acks timeout compression0 tps =
  bind (enc_header aPI_KEY_PRODUCE aPI_VERSION corr client_id0) (fun h ->
    bind
      (enc_array (fun pat ->
        let (t0, ps) = pat in
        bind (enc_str t0) (fun n0 ->
          bind
            (enc_array_unchecked (fun pat0 ->
              let (p, ms) = pat0 in enc_partition_produce cz compression0 p ms)
              ps) (fun pb -> Ok (app n0 pb)))) tps) (fun b -> Ok
      (app h (app (enc_i16 acks) (app (enc_i32 timeout) b)))))

(** val enc_group_coordinator_req : z -> bytes -> bytes -> bytes res **)

let enc_group_coordinator_req corr client_id0 group =
  bind (enc_header aPI_KEY_GROUP_COORDINATOR aPI_VERSION corr client_id0)
    (fun h -> bind (enc_str group) (fun g -> Ok (app h g)))

(** val enc_offset_fetch_req :
    z -> bytes -> bytes -> z -> (bytes * z list) list -> bytes res **)

let enc_offset_fetch_req corr client_id0 group version tps =
  bind (enc_header aPI_KEY_OFFSET_FETCH version corr client_id0) (fun h ->
    bind (enc_str group) (fun g ->
      bind (enc_tps (fun p -> Ok (enc_i32 p)) tps) (fun b -> Ok
        (app h (app g b)))))

(** val enc_offset_commit_req :
    z -> bytes -> bytes -> z -> (bytes * (z * z) list) list -> bytes res **)

let enc_offset_commit_req corr client_id0 group version tps =
  if negb
       ((||)
         ((||) (Z.eqb version oFFSET_COMMIT_V0)
           (Z.eqb version oFFSET_COMMIT_V1)) (Z.eqb version oFFSET_COMMIT_V2))
  then Panic
         (tag (String ((Ascii (true, false, true, false, true, false, true,
           false)), (String ((Ascii (false, true, true, true, false, true,
           true, false)), (String ((Ascii (true, true, false, true, false,
           true, true, false)), (String ((Ascii (false, true, true, true,
           false, true, true, false)), (String ((Ascii (true, true, true,
           true, false, true, true, false)), (String ((Ascii (true, true,
           true, false, true, true, true, false)), (String ((Ascii (false,
           true, true, true, false, true, true, false)), (String ((Ascii
           (false, false, false, false, false, true, false, false)), (String
           ((Ascii (true, true, true, true, false, true, true, false)),
           (String ((Ascii (false, true, true, false, false, true, true,
           false)), (String ((Ascii (false, true, true, false, false, true,
           true, false)), (String ((Ascii (true, true, false, false, true,
           true, true, false)), (String ((Ascii (true, false, true, false,
           false, true, true, false)), (String ((Ascii (false, false, true,
           false, true, true, true, false)), (String ((Ascii (false, false,
           false, false, false, true, false, false)), (String ((Ascii (true,
           true, false, false, false, true, true, false)), (String ((Ascii
           (true, true, true, true, false, true, true, false)), (String
           ((Ascii (true, false, true, true, false, true, true, false)),
           (String ((Ascii (true, false, true, true, false, true, true,
           false)), (String ((Ascii (true, false, false, true, false, true,
           true, false)), (String ((Ascii (false, false, true, false, true,
           true, true, false)), (String ((Ascii (false, false, false, false,
           false, true, false, false)), (String ((Ascii (false, true, true,
           false, true, true, true, false)), (String ((Ascii (true, false,
           true, false, false, true, true, false)), (String ((Ascii (false,
           true, false, false, true, true, true, false)), (String ((Ascii
           (true, true, false, false, true, true, true, false)), (String
           ((Ascii (true, false, false, true, false, true, true, false)),
           (String ((Ascii (true, true, true, true, false, true, true,
           false)), (String ((Ascii (false, true, true, true, false, true,
           true, false)), (String ((Ascii (false, false, false, false, false,
           true, false, false)), (String ((Ascii (true, true, false, false,
           false, true, true, false)), (String ((Ascii (true, true, true,
           true, false, true, true, false)), (String ((Ascii (false, false,
           true, false, false, true, true, false)), (String ((Ascii (true,
           false, true, false, false, true, true, false)),
           EmptyString)))))))))))))))))))))))))))))))))))))))))))))))))))))))))))))))))))))
  else bind (enc_header aPI_KEY_OFFSET_COMMIT version corr client_id0)
         (fun h ->
         bind (enc_str group) (fun g ->
           bind (enc_str []) (fun empty ->
             let pre =
               if Z.eqb version oFFSET_COMMIT_V1
               then app (enc_i32 (Zneg XH)) empty
               else if Z.eqb version oFFSET_COMMIT_V2
                    then app (enc_i32 (Zneg XH))
                           (app empty (enc_i64 (Zneg XH)))
                    else []
             in
             bind
               (enc_tps (fun pat ->
                 let (p, off) = pat in
                 Ok
                 (app (enc_i32 p)
                   (app (enc_i64 off)
                     (app
                       (if Z.eqb version oFFSET_COMMIT_V1
                        then enc_i64 (Zneg XH)
                        else []) empty)))) tps) (fun b -> Ok
               (app h (app g (app pre b)))))))

(** val u32_max : z **)

let u32_max =
  Zpos (XI (XI (XI (XI (XI (XI (XI (XI (XI (XI (XI (XI (XI (XI (XI (XI (XI
    (XI (XI (XI (XI (XI (XI (XI (XI (XI (XI (XI (XI (XI (XI
    XH)))))))))))))))))))))))))))))))

(** val varint_go : nat -> z -> z -> bytes -> (z * bytes) option **)

let rec varint_go fuel shift acc src =
  match fuel with
  | O -> None
  | S f ->
    (match src with
     | [] -> None
     | b :: r ->
       let v = zb b in
       if Z.ltb v (Zpos (XO (XO (XO (XO (XO (XO (XO XH))))))))
       then Some ((Z.add acc (Z.mul v (Z.pow (Zpos (XO XH)) shift))), r)
       else varint_go f (Z.add shift (Zpos (XI (XI XH))))
              (Z.add acc
                (Z.mul (Z.sub v (Zpos (XO (XO (XO (XO (XO (XO (XO XH)))))))))
                  (Z.pow (Zpos (XO XH)) shift))) r)

(** val snappy_header : bytes -> (z * bytes) option **)

let snappy_header src =
  match varint_go (S (S (S (S (S O))))) Z0 Z0 src with
  | Some p -> let (v, r) = p in if Z.gtb v u32_max then None else Some (v, r)
  | None -> None

(** val snappy_decompress_len_Z : bytes -> z option **)

let snappy_decompress_len_Z src = match src with
| [] -> Some Z0
| _ :: _ ->
  (match snappy_header src with
   | Some p -> let (v, _) = p in Some v
   | None -> None)

(** val le_dec : bytes -> z **)

let rec le_dec = function
| [] -> Z0
| b :: r ->
  Z.add (zb b)
    (Z.mul (Zpos (XO (XO (XO (XO (XO (XO (XO (XO XH))))))))) (le_dec r))

(** val split_exact : nat -> bytes -> (bytes * bytes) option **)

let rec split_exact n0 l =
  match n0 with
  | O -> Some ([], l)
  | S k ->
    (match l with
     | [] -> None
     | b :: r ->
       (match split_exact k r with
        | Some p -> let (a, r') = p in Some ((b :: a), r')
        | None -> None))

(** val take_rev : bytes -> z -> bytes -> (bytes * bytes) option **)

let rec take_rev l n0 acc =
  if Z.leb n0 Z0
  then Some (acc, l)
  else (match l with
        | [] -> None
        | b :: r -> take_rev r (Z.sub n0 (Zpos XH)) (b :: acc))

(** val copy_slow : nat -> nat -> bytes -> bytes **)

let rec copy_slow n0 off rout =
  match n0 with
  | O -> rout
  | S k -> copy_slow k off ((nth (sub off (S O)) rout X00) :: rout)

(** val copy_back : nat -> nat -> bytes -> bytes **)

let copy_back n0 off rout =
  if Nat.leb n0 off
  then app (firstn n0 (skipn (sub off n0) rout)) rout
  else copy_slow n0 off rout

(** val lit_len : z -> bytes -> (z * bytes) option **)

let lit_len tz r =
  let l0 = Z.add (Z.div tz (Zpos (XO (XO XH)))) (Zpos XH) in
  if Z.leb l0 (Zpos (XO (XO (XI (XI (XI XH))))))
  then Some (l0, r)
  else (match split_exact
                (Z.to_nat (Z.sub l0 (Zpos (XO (XO (XI (XI (XI XH)))))))) r with
        | Some p ->
          let (lb, r') = p in Some ((Z.add (le_dec lb) (Zpos XH)), r')
        | None -> None)

(** val copy_params : z -> (nat * z) * z **)

let copy_params tz =
  let k = Z.modulo tz (Zpos (XO (XO XH))) in
  if Z.eqb k (Zpos XH)
  then (((S O),
         (Z.add (Zpos (XO (XO XH)))
           (Z.modulo (Z.div tz (Zpos (XO (XO XH)))) (Zpos (XO (XO (XO XH))))))),
         (Z.mul (Z.div tz (Zpos (XO (XO (XO (XO (XO XH))))))) (Zpos (XO (XO
           (XO (XO (XO (XO (XO (XO XH)))))))))))
  else if Z.eqb k (Zpos (XO XH))
       then (((S (S O)), (Z.add (Zpos XH) (Z.div tz (Zpos (XO (XO XH)))))),
              Z0)
       else (((S (S (S (S O)))),
              (Z.add (Zpos XH) (Z.div tz (Zpos (XO (XO XH)))))), Z0)

(** val decode_step :
    z -> byte -> bytes -> bytes -> z -> ((bytes * bytes) * z) option **)

let decode_step dlen t0 r rout d =
  let tz = zb t0 in
  if Z.eqb (Z.modulo tz (Zpos (XO (XO XH)))) Z0
  then (match lit_len tz r with
        | Some p ->
          let (len, r1) = p in
          if Z.ltb (Z.sub dlen d) len
          then None
          else (match take_rev r1 len rout with
                | Some p0 ->
                  let (rout', r2) = p0 in Some ((r2, rout'), (Z.add d len))
                | None -> None)
        | None -> None)
  else let (p, hi) = copy_params tz in
       let (ntb, len) = p in
       (match split_exact ntb r with
        | Some p0 ->
          let (tb, r1) = p0 in
          let off = Z.add hi (le_dec tb) in
          if (||) ((||) (Z.eqb off Z0) (Z.ltb d off))
               (Z.ltb (Z.sub dlen d) len)
          then None
          else Some ((r1, (copy_back (Z.to_nat len) (Z.to_nat off) rout)),
                 (Z.add d len))
        | None -> None)

(** val decode_tags : nat -> z -> bytes -> bytes -> z -> bytes option **)

let rec decode_tags fuel dlen src rout d =
  match src with
  | [] -> if Z.eqb d dlen then Some (rev rout) else None
  | t0 :: r ->
    (match fuel with
     | O -> None
     | S f ->
       (match decode_step dlen t0 r rout d with
        | Some p ->
          let (p0, d') = p in
          let (r', rout') = p0 in decode_tags f dlen r' rout' d'
        | None -> None))

(** val snappy_raw_decompress : bytes -> bytes option **)

let snappy_raw_decompress src = match src with
| [] -> None
| _ :: _ ->
  (match snappy_header src with
   | Some p ->
     let (dlen, body) = p in decode_tags (length body) dlen body [] Z0
   | None -> None)

(** val uncompress_to : bytes -> bytes -> bytes option **)

let uncompress_to src dst =
  match snappy_decompress_len_Z src with
  | Some n0 ->
    if Z.gtb n0 Z0
    then (match snappy_raw_decompress src with
          | Some o -> Some (app dst o)
          | None -> None)
    else Some dst
  | None -> None

(** val uncompress_alloc : bytes -> bytes -> z **)

let uncompress_alloc src dst =
  match snappy_decompress_len_Z src with
  | Some n0 -> if Z.gtb n0 Z0 then Z.add (Z.of_nat (length dst)) n0 else Z0
  | None -> Z0

(** val xerial_magic : bytes **)

let xerial_magic =
  X82 :: (X53 :: (X4e :: (X41 :: (X50 :: (X50 :: (X59 :: (X00 :: [])))))))

(** val validate_stream : bytes -> bytes res **)

let validate_stream s =
  if Nat.ltb (length s) (S (S (S (S (S (S (S (S O))))))))
  then Err EUnexpectedEOF
  else if negb
            (bytes_eqb (firstn (S (S (S (S (S (S (S (S O)))))))) s)
              xerial_magic)
       then Err EInvalidSnappy
       else bind (zread_i32 (skipn (S (S (S (S (S (S (S (S O)))))))) s))
              (fun x ->
              let (version, s1) = x in
              if negb (Z.eqb version (Zpos XH))
              then Err EInvalidSnappy
              else bind (zread_i32 s1) (fun x0 ->
                     let (compat, s2) = x0 in
                     if negb (Z.eqb compat (Zpos XH))
                     then Err EInvalidSnappy
                     else Ok s2))

(** val io_other : 'a1 res **)

let io_other =
  Err (EIo IoOther)

(** val split_at_panic : bytes **)

let split_at_panic =
  tag (String ((Ascii (true, true, false, false, true, true, true, false)),
    (String ((Ascii (false, true, true, true, false, true, true, false)),
    (String ((Ascii (true, false, false, false, false, true, true, false)),
    (String ((Ascii (false, false, false, false, true, true, true, false)),
    (String ((Ascii (false, false, false, false, true, true, true, false)),
    (String ((Ascii (true, false, false, true, true, true, true, false)),
    (String ((Ascii (false, false, false, false, false, true, false, false)),
    (String ((Ascii (true, true, false, false, true, true, true, false)),
    (String ((Ascii (false, false, false, false, true, true, true, false)),
    (String ((Ascii (false, false, true, true, false, true, true, false)),
    (String ((Ascii (true, false, false, true, false, true, true, false)),
    (String ((Ascii (false, false, true, false, true, true, true, false)),
    (String ((Ascii (true, true, true, true, true, false, true, false)),
    (String ((Ascii (true, false, false, false, false, true, true, false)),
    (String ((Ascii (false, false, true, false, true, true, true, false)),
    EmptyString))))))))))))))))))))))))))))))

(** val xerial_loop : nat -> bytes -> bytes -> z -> bytes res * z **)

let rec xerial_loop fuel data out mx =
  match data with
  | [] -> ((Ok out), mx)
  | _ :: _ ->
    (match fuel with
     | O -> ((Err EOutOfFuel), mx)
     | S f ->
       (match zread_i32 data with
        | Ok a ->
          let (cs0, r) = a in
          if Z.leb cs0 Z0
          then (io_other, mx)
          else if Z.ltb (Z.of_nat (length r)) cs0
               then ((Panic split_at_panic), mx)
               else let n0 = Z.to_nat cs0 in
                    let c1 = firstn n0 r in
                    let mx' = Z.max mx (uncompress_alloc c1 out) in
                    (match uncompress_to c1 out with
                     | Some out' -> xerial_loop f (skipn n0 r) out' mx'
                     | None -> (io_other, mx'))
        | _ -> (io_other, mx)))

(** val xerial_run : bytes -> bytes res * z **)

let xerial_run stream =
  match validate_stream stream with
  | Ok data -> xerial_loop (length data) data [] Z0
  | x -> (x, Z0)

(** val xerial_read_to_end : bytes -> bytes res **)

let xerial_read_to_end stream =
  fst (xerial_run stream)

type kcode =
| KUnknown
| KOffsetOutOfRange
| KCorruptMessage
| KUnknownTopicOrPartition
| KInvalidMessageSize
| KLeaderNotAvailable
| KNotLeaderForPartition
| KRequestTimedOut
| KBrokerNotAvailable
| KReplicaNotAvailable
| KMessageSizeTooLarge
| KStaleControllerEpoch
| KOffsetMetadataTooLarge
| KNetworkException
| KGroupLoadInProgress
| KGroupCoordinatorNotAvailable
| KNotCoordinatorForGroup
| KInvalidTopic
| KRecordListTooLarge
| KNotEnoughReplicas
| KNotEnoughReplicasAfterAppend
| KInvalidRequiredAcks
| KIllegalGeneration
| KInconsistentGroupProtocol
| KInvalidGroupId
| KUnknownMemberId
| KInvalidSessionTimeout
| KRebalanceInProgress
| KInvalidCommitOffsetSize
| KTopicAuthorizationFailed
| KGroupAuthorizationFailed
| KClusterAuthorizationFailed
| KInvalidTimestamp
| KUnsupportedSaslMechanism
| KIllegalSaslState
| KUnsupportedVersion

(** val kcode_disc : kcode -> z **)

let kcode_disc = function
| KUnknown -> Zneg XH
| KOffsetOutOfRange -> Zpos XH
| KCorruptMessage -> Zpos (XO XH)
| KUnknownTopicOrPartition -> Zpos (XI XH)
| KInvalidMessageSize -> Zpos (XO (XO XH))
| KLeaderNotAvailable -> Zpos (XI (XO XH))
| KNotLeaderForPartition -> Zpos (XO (XI XH))
| KRequestTimedOut -> Zpos (XI (XI XH))
| KBrokerNotAvailable -> Zpos (XO (XO (XO XH)))
| KReplicaNotAvailable -> Zpos (XI (XO (XO XH)))
| KMessageSizeTooLarge -> Zpos (XO (XI (XO XH)))
| KStaleControllerEpoch -> Zpos (XI (XI (XO XH)))
| KOffsetMetadataTooLarge -> Zpos (XO (XO (XI XH)))
| KNetworkException -> Zpos (XI (XO (XI XH)))
| KGroupLoadInProgress -> Zpos (XO (XI (XI XH)))
| KGroupCoordinatorNotAvailable -> Zpos (XI (XI (XI XH)))
| KNotCoordinatorForGroup -> Zpos (XO (XO (XO (XO XH))))
| KInvalidTopic -> Zpos (XI (XO (XO (XO XH))))
| KRecordListTooLarge -> Zpos (XO (XI (XO (XO XH))))
| KNotEnoughReplicas -> Zpos (XI (XI (XO (XO XH))))
| KNotEnoughReplicasAfterAppend -> Zpos (XO (XO (XI (XO XH))))
| KInvalidRequiredAcks -> Zpos (XI (XO (XI (XO XH))))
| KIllegalGeneration -> Zpos (XO (XI (XI (XO XH))))
| KInconsistentGroupProtocol -> Zpos (XI (XI (XI (XO XH))))
| KInvalidGroupId -> Zpos (XO (XO (XO (XI XH))))
| KUnknownMemberId -> Zpos (XI (XO (XO (XI XH))))
| KInvalidSessionTimeout -> Zpos (XO (XI (XO (XI XH))))
| KRebalanceInProgress -> Zpos (XI (XI (XO (XI XH))))
| KInvalidCommitOffsetSize -> Zpos (XO (XO (XI (XI XH))))
| KTopicAuthorizationFailed -> Zpos (XI (XO (XI (XI XH))))
| KGroupAuthorizationFailed -> Zpos (XO (XI (XI (XI XH))))
| KClusterAuthorizationFailed -> Zpos (XI (XI (XI (XI XH))))
| KInvalidTimestamp -> Zpos (XO (XO (XO (XO (XO XH)))))
| KUnsupportedSaslMechanism -> Zpos (XI (XO (XO (XO (XO XH)))))
| KIllegalSaslState -> Zpos (XO (XI (XO (XO (XO XH)))))
| KUnsupportedVersion -> Zpos (XI (XI (XO (XO (XO XH)))))

(** val from_protocol_lo : z **)

let from_protocol_lo =
  kcode_disc KOffsetOutOfRange

(** val from_protocol_hi : z **)

let from_protocol_hi =
  kcode_disc KUnsupportedVersion

(** val from_protocol_default : z **)

let from_protocol_default =
  kcode_disc KUnknown

(** val from_protocol : z -> z option **)

let from_protocol n0 =
  if Z.eqb n0 Z0
  then None
  else if (&&) (Z.leb from_protocol_lo n0) (Z.leb n0 from_protocol_hi)
       then Some (wrap_s (Zpos (XO (XO (XO XH)))) n0)
       else Some from_protocol_default

(** val kC_UnknownTopicOrPartition : z **)

let kC_UnknownTopicOrPartition =
  kcode_disc KUnknownTopicOrPartition

(** val kC_CorruptMessage : z **)

let kC_CorruptMessage =
  kcode_disc KCorruptMessage

(** val kC_GroupLoadInProgress : z **)

let kC_GroupLoadInProgress =
  kcode_disc KGroupLoadInProgress

(** val kC_GroupCoordinatorNotAvailable : z **)

let kC_GroupCoordinatorNotAvailable =
  kcode_disc KGroupCoordinatorNotAvailable

(** val kC_NotCoordinatorForGroup : z **)

let kC_NotCoordinatorForGroup =
  kcode_disc KNotCoordinatorForGroup

(** val kC_MessageSizeTooLarge : z **)

let kC_MessageSizeTooLarge =
  kcode_disc KMessageSizeTooLarge

(** val kC_Unknown : z **)

let kC_Unknown =
  kcode_disc KUnknown

(** val dec_corr : z dec **)

let dec_corr =
  dec_i32

type broker_md = { bm_node : z; bm_host : bytes; bm_port : z }

type partition_md = { pm_error : z; pm_id : z; pm_leader : z;
                      pm_replicas : z list; pm_isr : z list }

type topic_md = { tm_error : z; tm_topic : bytes;
                  tm_partitions : partition_md list }

type metadata_resp = { md_corr : z; md_brokers : broker_md list;
                       md_topics : topic_md list }

(** val dec_broker_md : broker_md dec **)

let dec_broker_md bs =
  bind (dec_i32 bs) (fun x ->
    let (n0, r) = x in
    bind (dec_string r) (fun x0 ->
      let (h, r0) = x0 in
      bind (dec_i32 r0) (fun x1 ->
        let (p, r1) = x1 in
        Ok ({ bm_node = n0; bm_host = h; bm_port = p }, r1))))

(** val dec_partition_md : partition_md dec **)

let dec_partition_md bs =
  bind (dec_i16 bs) (fun x ->
    let (e, r) = x in
    bind (dec_i32 r) (fun x0 ->
      let (i, r0) = x0 in
      bind (dec_i32 r0) (fun x1 ->
        let (l, r1) = x1 in
        bind (dec_vec sz_i32 dec_i32 r1) (fun x2 ->
          let (rs, r2) = x2 in
          bind (dec_vec sz_i32 dec_i32 r2) (fun x3 ->
            let (isr, r3) = x3 in
            Ok ({ pm_error = e; pm_id = i; pm_leader = l; pm_replicas = rs;
            pm_isr = isr }, r3))))))

(** val dec_topic_md : topic_md dec **)

let dec_topic_md bs =
  bind (dec_i16 bs) (fun x ->
    let (e, r) = x in
    bind (dec_string r) (fun x0 ->
      let (t0, r0) = x0 in
      bind
        (dec_vec (Zpos (XO (XO (XO (XO (XO (XO XH))))))) dec_partition_md r0)
        (fun x1 ->
        let (ps, r1) = x1 in
        Ok ({ tm_error = e; tm_topic = t0; tm_partitions = ps }, r1))))

(** val dec_metadata_resp : metadata_resp dec **)

let dec_metadata_resp bs =
  bind (dec_corr bs) (fun x ->
    let (c, r) = x in
    bind (dec_vec (Zpos (XO (XO (XO (XO (XO XH)))))) dec_broker_md r)
      (fun x0 ->
      let (bs', r0) = x0 in
      bind (dec_vec (Zpos (XO (XO (XO (XI (XI XH)))))) dec_topic_md r0)
        (fun x1 ->
        let (ts, r1) = x1 in
        Ok ({ md_corr = c; md_brokers = bs'; md_topics = ts }, r1))))

(** val dec_tps : z -> 'a1 dec -> (bytes * 'a1 list) list dec **)

let dec_tps psize dp =
  dec_vec (Zpos (XO (XO (XO (XO (XI XH)))))) (fun bs ->
    bind (dec_string bs) (fun x ->
      let (t0, r) = x in
      bind (dec_vec psize dp r) (fun x0 ->
        let (ps, r0) = x0 in Ok ((t0, ps), r0))))

type part_offset_resp = { por_partition : z; por_error : z;
                          por_offsets : z list }

(** val dec_part_offset_resp : part_offset_resp dec **)

let dec_part_offset_resp bs =
  bind (dec_i32 bs) (fun x ->
    let (p, r) = x in
    bind (dec_i16 r) (fun x0 ->
      let (e, r0) = x0 in
      bind (dec_vec sz_i64 dec_i64 r0) (fun x1 ->
        let (os, r1) = x1 in
        Ok ({ por_partition = p; por_error = e; por_offsets = os }, r1))))

(** val dec_offset_resp : (z * (bytes * part_offset_resp list) list) dec **)

let dec_offset_resp bs =
  bind (dec_corr bs) (fun x ->
    let (c, r) = x in
    bind (dec_tps (Zpos (XO (XO (XO (XO (XO XH)))))) dec_part_offset_resp r)
      (fun x0 -> let (tps, r0) = x0 in Ok ((c, tps), r0)))

(** val to_offset : part_offset_resp -> (z * z, z) sum **)

let to_offset p =
  match from_protocol p.por_error with
  | Some c -> Inr c
  | None ->
    Inl (p.por_partition,
      (match p.por_offsets with
       | [] -> Zneg XH
       | o :: _ -> o))

type list_offset_part = { lop_partition : z; lop_error : z;
                          lop_timestamp : z; lop_offset : z }

(** val dec_list_offset_part : list_offset_part dec **)

let dec_list_offset_part bs =
  bind (dec_i32 bs) (fun x ->
    let (p, r) = x in
    bind (dec_i16 r) (fun x0 ->
      let (e, r0) = x0 in
      bind (dec_i64 r0) (fun x1 ->
        let (ts, r1) = x1 in
        bind (dec_i64 r1) (fun x2 ->
          let (o, r2) = x2 in
          Ok ({ lop_partition = p; lop_error = e; lop_timestamp = ts;
          lop_offset = o }, r2)))))

(** val dec_list_offsets_resp :
    (z * (bytes * list_offset_part list) list) dec **)

let dec_list_offsets_resp bs =
  bind (dec_corr bs) (fun x ->
    let (c, r) = x in
    bind (dec_tps (Zpos (XO (XO (XO (XI XH))))) dec_list_offset_part r)
      (fun x0 -> let (tps, r0) = x0 in Ok ((c, tps), r0)))

(** val lop_to_offset : list_offset_part -> ((z * z) * z, z) sum **)

let lop_to_offset p =
  match from_protocol p.lop_error with
  | Some c -> Inr c
  | None -> Inl ((p.lop_partition, p.lop_offset), p.lop_timestamp)

type produce_part = { pp_partition : z; pp_error : z; pp_offset : z }

(** val dec_produce_part : produce_part dec **)

let dec_produce_part bs =
  bind (dec_i32 bs) (fun x ->
    let (p, r) = x in
    bind (dec_i16 r) (fun x0 ->
      let (e, r0) = x0 in
      bind (dec_i64 r0) (fun x1 ->
        let (o, r1) = x1 in
        Ok ({ pp_partition = p; pp_error = e; pp_offset = o }, r1))))

(** val dec_produce_resp : (z * (bytes * produce_part list) list) dec **)

let dec_produce_resp bs =
  bind (dec_corr bs) (fun x ->
    let (c, r) = x in
    bind (dec_tps (Zpos (XO (XO (XO (XO XH))))) dec_produce_part r)
      (fun x0 -> let (tps, r0) = x0 in Ok ((c, tps), r0)))

(** val produce_confirm : produce_part -> z * (z, z) sum **)

let produce_confirm p =
  (p.pp_partition,
    (match from_protocol p.pp_error with
     | Some c -> Inr c
     | None -> Inl p.pp_offset))

type coordinator_resp = { gc_corr : z; gc_error : z; gc_broker : z;
                          gc_host : bytes; gc_port : z }

(** val dec_coordinator_resp : coordinator_resp dec **)

let dec_coordinator_resp bs =
  bind (dec_corr bs) (fun x ->
    let (c, r) = x in
    bind (dec_i16 r) (fun x0 ->
      let (e, r0) = x0 in
      bind (dec_i32 r0) (fun x1 ->
        let (b, r1) = x1 in
        bind (dec_string r1) (fun x2 ->
          let (h, r2) = x2 in
          bind (dec_i32 r2) (fun x3 ->
            let (p, r3) = x3 in
            Ok ({ gc_corr = c; gc_error = e; gc_broker = b; gc_host = h;
            gc_port = p }, r3))))))

type offset_fetch_part = { ofp_partition : z; ofp_offset : z;
                           ofp_metadata : bytes; ofp_error : z }

(** val dec_offset_fetch_part : offset_fetch_part dec **)

let dec_offset_fetch_part bs =
  bind (dec_i32 bs) (fun x ->
    let (p, r) = x in
    bind (dec_i64 r) (fun x0 ->
      let (o, r0) = x0 in
      bind (dec_string r0) (fun x1 ->
        let (m0, r1) = x1 in
        bind (dec_i16 r1) (fun x2 ->
          let (e, r2) = x2 in
          Ok ({ ofp_partition = p; ofp_offset = o; ofp_metadata = m0;
          ofp_error = e }, r2)))))

(** val dec_offset_fetch_resp :
    (z * (bytes * offset_fetch_part list) list) dec **)

let dec_offset_fetch_resp bs =
  bind (dec_corr bs) (fun x ->
    let (c, r) = x in
    bind (dec_tps (Zpos (XO (XO (XO (XO (XI XH)))))) dec_offset_fetch_part r)
      (fun x0 -> let (tps, r0) = x0 in Ok ((c, tps), r0)))

(** val get_offsets : offset_fetch_part -> (z * z, z) sum **)

let get_offsets p =
  match from_protocol p.ofp_error with
  | Some c ->
    if Z.eqb c kC_UnknownTopicOrPartition
    then Inl (p.ofp_partition, (Zneg XH))
    else Inr c
  | None -> Inl (p.ofp_partition, p.ofp_offset)

(** val dec_offset_commit_part : (z * z) dec **)

let dec_offset_commit_part bs =
  bind (dec_i32 bs) (fun x ->
    let (p, r) = x in
    bind (dec_i16 r) (fun x0 -> let (e, r0) = x0 in Ok ((p, e), r0)))

(** val dec_offset_commit_resp : (z * (bytes * (z * z) list) list) dec **)

let dec_offset_commit_resp bs =
  bind (dec_corr bs) (fun x ->
    let (c, r) = x in
    bind (dec_tps (Zpos (XO (XO (XO XH)))) dec_offset_commit_part r)
      (fun x0 -> let (tps, r0) = x0 in Ok ((c, tps), r0)))

type message = { m_offset : z; m_key : bytes; m_value : bytes }

(** val protocol_message :
    bool -> bool -> bytes -> ((z * bytes) * bytes) res **)

let protocol_message dbg validate raw =
  bind (zread_i32 raw) (fun x ->
    let (crc, r) = x in
    if (&&) validate
         (negb
           (Z.eqb (wrap_s (Zpos (XO (XO (XO (XO (XO XH)))))) (crc32 r)) crc))
    then Err (EKafka kC_CorruptMessage)
    else bind (zread_i8 r) (fun x0 ->
           let (magic, r0) = x0 in
           if negb (Z.eqb magic Z0)
           then Err EUnsupportedProtocol
           else bind (zread_i8 r0) (fun x1 ->
                  let (attr, r1) = x1 in
                  bind (zread_bytes r1) (fun x2 ->
                    let (k, r2) = x2 in
                    bind (zread_bytes r2) (fun x3 ->
                      let (v, r3) = x3 in
                      (match r3 with
                       | [] -> Ok ((attr, k), v)
                       | _ :: _ ->
                         if dbg
                         then Panic
                                (tag (String ((Ascii (false, false, true,
                                  false, false, true, true, false)), (String
                                  ((Ascii (true, false, true, false, false,
                                  true, true, false)), (String ((Ascii
                                  (false, true, false, false, false, true,
                                  true, false)), (String ((Ascii (true,
                                  false, true, false, true, true, true,
                                  false)), (String ((Ascii (true, true, true,
                                  false, false, true, true, false)), (String
                                  ((Ascii (true, true, true, true, true,
                                  false, true, false)), (String ((Ascii
                                  (true, false, false, false, false, true,
                                  true, false)), (String ((Ascii (true, true,
                                  false, false, true, true, true, false)),
                                  (String ((Ascii (true, true, false, false,
                                  true, true, true, false)), (String ((Ascii
                                  (true, false, true, false, false, true,
                                  true, false)), (String ((Ascii (false,
                                  true, false, false, true, true, true,
                                  false)), (String ((Ascii (false, false,
                                  true, false, true, true, true, false)),
                                  (String ((Ascii (false, false, false,
                                  false, false, true, false, false)), (String
                                  ((Ascii (false, true, false, false, true,
                                  true, true, false)), (String ((Ascii
                                  (false, true, true, true, false, true,
                                  false, false)), (String ((Ascii (true,
                                  false, false, true, false, true, true,
                                  false)), (String ((Ascii (true, true,
                                  false, false, true, true, true, false)),
                                  (String ((Ascii (true, true, true, true,
                                  true, false, true, false)), (String ((Ascii
                                  (true, false, true, false, false, true,
                                  true, false)), (String ((Ascii (true,
                                  false, true, true, false, true, true,
                                  false)), (String ((Ascii (false, false,
                                  false, false, true, true, true, false)),
                                  (String ((Ascii (false, false, true, false,
                                  true, true, true, false)), (String ((Ascii
                                  (true, false, false, true, true, true,
                                  true, false)),
                                  EmptyString)))))))))))))))))))))))))))))))))))))))))))))))
                         else Ok ((attr, k), v)))))))

(** val next_message :
    bool -> bool -> bytes -> ((z * ((z * bytes) * bytes)) * bytes) res **)

let next_message dbg validate bs =
  bind (zread_i64 bs) (fun x ->
    let (off, r) = x in
    bind (zread_bytes r) (fun x0 ->
      let (msg, r0) = x0 in
      bind (protocol_message dbg validate msg) (fun pm -> Ok ((off, pm), r0))))

(** val ms_loop :
    (z -> bytes -> message list res) -> bool -> bool -> z -> nat -> bytes ->
    message list -> message list res **)

let rec ms_loop inner dbg validate req fuel bs acc =
  match bs with
  | [] -> Ok (rev acc)
  | _ :: _ ->
    (match fuel with
     | O -> Err EOutOfFuel
     | S f ->
       (match next_message dbg validate bs with
        | Ok a ->
          let (p, r) = a in
          let (off, p0) = p in
          let (p6, v) = p0 in
          let (attr, k) = p6 in
          let c = Z.coq_land attr (Zpos (XI (XI XH))) in
          if Z.eqb c cOMPRESSION_NONE
          then ms_loop inner dbg validate req f r
                 (if Z.leb req off
                  then { m_offset = off; m_key = k; m_value = v } :: acc
                  else acc)
          else if (||) (Z.eqb c cOMPRESSION_GZIP) (Z.eqb c cOMPRESSION_SNAPPY)
               then inner c v
               else Err EUnsupportedCompression
        | Err e -> (match e with
                    | EUnexpectedEOF -> Ok (rev acc)
                    | _ -> Err e)
        | Panic w -> Panic w))

(** val from_slice :
    codecs -> nat -> bool -> z -> bytes -> message list res **)

let rec from_slice cz depth validate req bs =
  match depth with
  | O -> Err EOutOfFuel
  | S d ->
    ms_loop (fun c v ->
      if Z.eqb c cOMPRESSION_GZIP
      then (match cz.gz_decompress v with
            | Some data -> from_slice cz d validate req data
            | None -> Err (EIo IoOther))
      else bind (xerial_read_to_end v) (fun data ->
             from_slice cz d validate req data)) cz.debug_build validate req
      (S (length bs)) bs []

type fetch_part = { fp_partition : z; fp_data : (z * message list, z) sum }

type fetch_topic = { ft_topic : bytes; ft_partitions : fetch_part list }

type fetch_resp = { fr_corr : z; fr_topics : fetch_topic list }

(** val assoc_bytes : bytes -> (bytes * 'a1) list -> 'a1 option **)

let rec assoc_bytes k = function
| [] -> None
| p :: r ->
  let (k', v) = p in if bytes_eqb k' k then Some v else assoc_bytes k r

(** val assoc_z : z -> (z * 'a1) list -> 'a1 option **)

let rec assoc_z k = function
| [] -> None
| p :: r -> let (k', v) = p in if Z.eqb k' k then Some v else assoc_z k r

(** val zread_str : bytes -> (bytes * bytes) res **)

let zread_str bs =
  bind (zread_i16 bs) (fun x ->
    let (len, r) = x in
    if Z.leb len Z0
    then Ok ([], r)
    else bind (zread (Z.to_nat len) r) (fun x0 ->
           let (s, r0) = x0 in
           if utf8_valid s then Ok (s, r0) else Err EStringDecode))

(** val read_partition :
    codecs -> nat -> bool -> fetch_parts option -> bytes ->
    (fetch_part * bytes) res **)

let read_partition cz depth validate preqs bs =
  bind (zread_i32 bs) (fun x ->
    let (p, r) = x in
    let req =
      match preqs with
      | Some ps ->
        (match assoc_z p ps with
         | Some p0 -> let (off, _) = p0 in off
         | None -> Z0)
      | None -> Z0
    in
    bind (zread_i16 r) (fun x0 ->
      let (e, r0) = x0 in
      bind (zread_i64 r0) (fun x1 ->
        let (hw, r1) = x1 in
        bind (zread_bytes r1) (fun x2 ->
          let (ms, r2) = x2 in
          bind (from_slice cz depth validate req ms) (fun msgs -> Ok
            ({ fp_partition = p; fp_data =
            (match from_protocol e with
             | Some c -> Inr c
             | None -> Inl (hw, msgs)) }, r2))))))

(** val zread_many :
    (bytes -> ('a1 * bytes) res) -> nat -> z -> bytes -> ('a1 list * bytes)
    res **)

let rec zread_many d fuel count bs =
  if Z.leb count Z0
  then Ok ([], bs)
  else (match fuel with
        | O -> Err EOutOfFuel
        | S f ->
          bind (d bs) (fun x0 ->
            let (x, r) = x0 in
            bind (zread_many d f (Z.sub count (Zpos XH)) r) (fun x1 ->
              let (xs, r') = x1 in Ok ((x :: xs), r'))))

(** val zread_array :
    z -> (bytes -> ('a1 * bytes) res) -> bytes -> ('a1 list * bytes) res **)

let zread_array elem_size d bs =
  bind (zread_array_len bs) (fun x ->
    let (n0, r) = x in
    if Z.leb alloc_limit (Z.mul n0 elem_size)
    then alloc_panic
    else zread_many d (S (length r)) n0 r)

(** val read_topic :
    codecs -> nat -> bool -> fetch_tps -> bytes -> (fetch_topic * bytes) res **)

let read_topic cz depth validate reqs bs =
  bind (zread_str bs) (fun x ->
    let (name, r) = x in
    bind
      (zread_array (Zpos (XO (XO (XO (XO (XO (XO XH)))))))
        (read_partition cz depth validate (assoc_bytes name reqs)) r)
      (fun x0 ->
      let (ps, r0) = x0 in Ok ({ ft_topic = name; ft_partitions = ps }, r0)))

(** val fetch_from_vec :
    codecs -> nat -> bool -> fetch_tps -> bytes -> fetch_resp res **)

let fetch_from_vec cz depth validate reqs bs =
  bind (zread_i32 bs) (fun x ->
    let (c, r) = x in
    bind
      (zread_array (Zpos (XO (XO (XO (XI (XO XH))))))
        (read_topic cz depth validate reqs) r) (fun x0 ->
      let (ts, _) = x0 in Ok { fr_corr = c; fr_topics = ts }))

(** val uNKNOWN_BROKER_INDEX : z **)

let uNKNOWN_BROKER_INDEX =
  Zpos (XI (XI (XI (XI (XI (XI (XI (XI (XI (XI (XI (XI (XI (XI (XI (XI (XI
    (XI (XI (XI (XI (XI (XI (XI (XI (XI (XI (XI (XI (XI (XI
    XH)))))))))))))))))))))))))))))))

type broker = { b_node : z; b_host : bytes }

type cstate = { correlation : z; brokers : broker list;
                topic_partitions : (bytes * z list) list;
                group_coordinators : (bytes * z) list }

(** val cstate_new : cstate **)

let cstate_new =
  { correlation = Z0; brokers = []; topic_partitions = [];
    group_coordinators = [] }

(** val nth_z : 'a1 list -> z -> 'a1 option **)

let nth_z l i =
  if (||) (Z.ltb i Z0) (Z.leb (ulen l) i)
  then None
  else nth_error l (Z.to_nat i)

(** val dec_digits : nat -> z -> bytes -> bytes **)

let rec dec_digits fuel n0 acc =
  match fuel with
  | O -> acc
  | S f ->
    let acc' =
      (bZ
        (Z.add (Zpos (XO (XO (XO (XO (XI XH))))))
          (Z.modulo n0 (Zpos (XO (XI (XO XH))))))) :: acc
    in
    if Z.eqb (Z.div n0 (Zpos (XO (XI (XO XH))))) Z0
    then acc'
    else dec_digits f (Z.div n0 (Zpos (XO (XI (XO XH))))) acc'

(** val dec_of_Z : z -> bytes **)

let dec_of_Z n0 =
  if Z.ltb n0 Z0
  then X2d :: (dec_digits (S (S (S (S (S (S (S (S (S (S (S (S (S (S (S (S (S
                (S (S (S O)))))))))))))))))))) (Z.opp n0) [])
  else dec_digits (S (S (S (S (S (S (S (S (S (S (S (S (S (S (S (S (S (S (S (S
         O)))))))))))))))))))) n0 []

(** val host_port : bytes -> z -> bytes **)

let host_port host port =
  app host (app (X3a :: []) (dec_of_Z port))

(** val partitions_for : cstate -> bytes -> z list option **)

let partitions_for s topic =
  assoc_bytes topic s.topic_partitions

(** val broker_of : cstate -> z -> broker option **)

let broker_of s bref =
  nth_z s.brokers bref

(** val partition_ref : z list -> z -> z option **)

let partition_ref =
  nth_z

(** val find_broker : cstate -> bytes -> z -> bytes option **)

let find_broker s topic partition0 =
  match partitions_for s topic with
  | Some ps ->
    (match partition_ref ps partition0 with
     | Some bref -> option_map (fun b -> b.b_host) (broker_of s bref)
     | None -> None)
  | None -> None

(** val contains_topic_partition : cstate -> bytes -> z -> bool **)

let contains_topic_partition s topic partition0 =
  match partitions_for s topic with
  | Some ps ->
    (match partition_ref ps partition0 with
     | Some _ -> true
     | None -> false)
  | None -> false

(** val next_correlation_id : cstate -> z * cstate **)

let next_correlation_id s =
  let c = Z.rem (Z.add s.correlation (Zpos XH)) cORRELATION_MODULUS in
  (c, { correlation = c; brokers = s.brokers; topic_partitions =
  s.topic_partitions; group_coordinators = s.group_coordinators })

(** val clear_metadata : cstate -> cstate **)

let clear_metadata s =
  { correlation = s.correlation; brokers = []; topic_partitions = [];
    group_coordinators = s.group_coordinators }

(** val idx_insert : (z * z) list -> z -> z -> (z * z) list **)

let rec idx_insert idx k v =
  match idx with
  | [] -> (k, v) :: []
  | p :: r ->
    let (k', v') = p in
    if Z.eqb k' k then (k', v) :: r else (k', v') :: (idx_insert r k v)

(** val index_brokers : broker list -> z -> (z * z) list -> (z * z) list **)

let rec index_brokers bs i idx =
  match bs with
  | [] -> idx
  | b :: r -> index_brokers r (Z.add i (Zpos XH)) (idx_insert idx b.b_node i)

(** val set_host : broker list -> nat -> bytes -> broker list **)

let rec set_host bs i h =
  match bs with
  | [] -> []
  | b :: r ->
    (match i with
     | O -> { b_node = b.b_node; b_host = h } :: r
     | S k -> b :: (set_host r k h))

(** val update_brokers_go :
    broker_md list -> broker list -> (z * z) list -> broker list * (z * z)
    list **)

let rec update_brokers_go mds bs idx =
  match mds with
  | [] -> (bs, idx)
  | m0 :: r ->
    let h = host_port m0.bm_host m0.bm_port in
    (match assoc_z m0.bm_node idx with
     | Some i -> update_brokers_go r (set_host bs (Z.to_nat i) h) idx
     | None ->
       update_brokers_go r
         (app bs ({ b_node = m0.bm_node; b_host = h } :: []))
         (app idx ((m0.bm_node, (ulen bs)) :: [])))

(** val update_brokers :
    cstate -> metadata_resp -> broker list * (z * z) list **)

let update_brokers s md =
  update_brokers_go md.md_brokers s.brokers (index_brokers s.brokers Z0 [])

(** val resize_refs : z list -> nat -> z list **)

let rec resize_refs ps = function
| O -> []
| S k ->
  (match ps with
   | [] -> uNKNOWN_BROKER_INDEX :: (resize_refs [] k)
   | p :: r -> p :: (resize_refs r k))

(** val set_ref : z list -> nat -> z -> z list **)

let rec set_ref ps i v =
  match ps with
  | [] -> []
  | p :: r -> (match i with
               | O -> v :: r
               | S k -> p :: (set_ref r k v))

(** val sync_partitions :
    (z * z) list -> partition_md list -> z list -> z list res **)

let rec sync_partitions idx pms ps =
  match pms with
  | [] -> Ok ps
  | pm :: r ->
    if (||) (Z.ltb pm.pm_id Z0) (Z.leb (ulen ps) pm.pm_id)
    then Panic
           (tag (String ((Ascii (true, false, false, true, false, true, true,
             false)), (String ((Ascii (false, true, true, true, false, true,
             true, false)), (String ((Ascii (false, false, true, false,
             false, true, true, false)), (String ((Ascii (true, false, true,
             false, false, true, true, false)), (String ((Ascii (false,
             false, false, true, true, true, true, false)), (String ((Ascii
             (false, false, false, false, false, true, false, false)),
             (String ((Ascii (true, true, true, true, false, true, true,
             false)), (String ((Ascii (true, false, true, false, true, true,
             true, false)), (String ((Ascii (false, false, true, false, true,
             true, true, false)), (String ((Ascii (false, false, false,
             false, false, true, false, false)), (String ((Ascii (true, true,
             true, true, false, true, true, false)), (String ((Ascii (false,
             true, true, false, false, true, true, false)), (String ((Ascii
             (false, false, false, false, false, true, false, false)),
             (String ((Ascii (false, true, false, false, false, true, true,
             false)), (String ((Ascii (true, true, true, true, false, true,
             true, false)), (String ((Ascii (true, false, true, false, true,
             true, true, false)), (String ((Ascii (false, true, true, true,
             false, true, true, false)), (String ((Ascii (false, false, true,
             false, false, true, true, false)), (String ((Ascii (true, true,
             false, false, true, true, true, false)),
             EmptyString)))))))))))))))))))))))))))))))))))))))
    else let v =
           match assoc_z pm.pm_leader idx with
           | Some i -> i
           | None -> uNKNOWN_BROKER_INDEX
         in
         sync_partitions idx r (set_ref ps (Z.to_nat pm.pm_id) v)

(** val tp_set :
    (bytes * z list) list -> bytes -> z list -> (bytes * z list) list **)

let rec tp_set tps t0 ps =
  match tps with
  | [] -> (t0, ps) :: []
  | p :: r ->
    let (t', ps') = p in
    if bytes_eqb t' t0 then (t', ps) :: r else (t', ps') :: (tp_set r t0 ps)

(** val update_topics :
    (z * z) list -> topic_md list -> (bytes * z list) list -> (bytes * z
    list) list res **)

let rec update_topics idx tms tps =
  match tms with
  | [] -> Ok tps
  | tm :: r ->
    let m0 = length tm.tm_partitions in
    let ps0 =
      match assoc_bytes tm.tm_topic tps with
      | Some ps -> resize_refs ps m0
      | None -> resize_refs [] m0
    in
    let tps0 = tp_set tps tm.tm_topic ps0 in
    (match sync_partitions idx tm.tm_partitions ps0 with
     | Ok ps1 -> update_topics idx r (tp_set tps0 tm.tm_topic ps1)
     | Err e -> Err e
     | Panic w -> Panic w)

(** val update_metadata : cstate -> metadata_resp -> cstate res **)

let update_metadata s md =
  let (bs, idx) = update_brokers s md in
  bind (update_topics idx md.md_topics s.topic_partitions) (fun tps -> Ok
    { correlation = s.correlation; brokers = bs; topic_partitions = tps;
    group_coordinators = s.group_coordinators })

(** val group_coordinator : cstate -> bytes -> bytes option **)

let group_coordinator s group =
  match assoc_bytes group s.group_coordinators with
  | Some i -> option_map (fun b -> b.b_host) (nth_z s.brokers i)
  | None -> None

(** val gc_remove : (bytes * z) list -> bytes -> (bytes * z) list **)

let rec gc_remove l g =
  match l with
  | [] -> []
  | p :: r ->
    let (g', i) = p in
    if bytes_eqb g' g then r else (g', i) :: (gc_remove r g)

(** val remove_group_coordinator : cstate -> bytes -> cstate **)

let remove_group_coordinator s group =
  { correlation = s.correlation; brokers = s.brokers; topic_partitions =
    s.topic_partitions; group_coordinators =
    (gc_remove s.group_coordinators group) }

(** val find_node : broker list -> z -> z -> z option **)

let rec find_node bs node i =
  match bs with
  | [] -> None
  | b :: r ->
    if Z.eqb b.b_node node
    then Some i
    else find_node r node (Z.add i (Zpos XH))

(** val gc_set : (bytes * z) list -> bytes -> z -> (bytes * z) list **)

let rec gc_set l g i =
  match l with
  | [] -> (g, i) :: []
  | p :: r ->
    let (g', i') = p in
    if bytes_eqb g' g then (g', i) :: r else (g', i') :: (gc_set r g i)

(** val set_group_coordinator :
    cstate -> bytes -> coordinator_resp -> bytes * cstate **)

let set_group_coordinator s group gc =
  let gh = host_port gc.gc_host gc.gc_port in
  (match find_node s.brokers gc.gc_broker Z0 with
   | Some i ->
     let bs = s.brokers in
     ((match nth_z bs i with
       | Some b -> b.b_host
       | None -> gh), { correlation = s.correlation; brokers = bs;
     topic_partitions = s.topic_partitions; group_coordinators =
     (gc_set s.group_coordinators group i) })
   | None ->
     let i = ulen s.brokers in
     let bs = app s.brokers ({ b_node = gc.gc_broker; b_host = gh } :: []) in
     ((match nth_z bs i with
       | Some b -> b.b_host
       | None -> gh), { correlation = s.correlation; brokers = bs;
     topic_partitions = s.topic_partitions; group_coordinators =
     (gc_set s.group_coordinators group i) }))

type ev_out =
| OConn of bool
| OWrote of z
| OWriteIntr
| OWriteFail of ioerr
| OData of bytes
| OReadIntr
| OReadFail of ioerr
| OShut

type ev_op =
| EConnect of bytes
| EWrite of bytes * bytes
| ERead of bytes * z
| EShutdown of bytes

type config = { client_id : bytes; hosts : bytes list; compression : 
                z; fetch_max_wait_time : z; fetch_min_bytes : z;
                fetch_max_bytes_per_partition : z;
                fetch_crc_validation : bool; offset_storage : z;
                retry_backoff_time : (z * z); retry_max_attempts : z;
                idle_timeout : (z * z) }

type client = { cfg : config; cs : cstate; conns : bytes list }

type st = { script : ev_out list; trace : ev_op list; anyq : bytes list;
            hostq : bytes list list;
            fetchq : (bytes * (bytes * z list) list) list;
            entryq : (bytes * z) list list; cl : client; env : codecs }

type 'a m = st -> 'a res * st

(** val ret : 'a1 -> 'a1 m **)

let ret a s =
  ((Ok a), s)

(** val fail : err -> 'a1 m **)

let fail e s =
  ((Err e), s)

(** val mpanic : bytes -> 'a1 m **)

let mpanic w s =
  ((Panic w), s)

(** val lift : 'a1 res -> 'a1 m **)

let lift r s =
  (r, s)

(** val mbind : 'a1 m -> ('a1 -> 'a2 m) -> 'a2 m **)

let mbind m0 f s =
  let (r, s') = m0 s in
  (match r with
   | Ok a -> f a s'
   | Err e -> ((Err e), s')
   | Panic w -> ((Panic w), s'))

(** val mtry : 'a1 m -> 'a1 res m **)

let mtry m0 s =
  let (r, s') = m0 s in
  (match r with
   | Panic w -> ((Panic w), s')
   | _ -> ((Ok r), s'))

(** val st_with : st -> ev_out list -> ev_op list -> st **)

let st_with s sc tr =
  { script = sc; trace = tr; anyq = s.anyq; hostq = s.hostq; fetchq =
    s.fetchq; entryq = s.entryq; cl = s.cl; env = s.env }

(** val get_client : client m **)

let get_client s =
  ((Ok s.cl), s)

(** val set_client : client -> unit m **)

let set_client c s =
  ((Ok ()), { script = s.script; trace = s.trace; anyq = s.anyq; hostq =
    s.hostq; fetchq = s.fetchq; entryq = s.entryq; cl = c; env = s.env })

(** val get_env : codecs m **)

let get_env s =
  ((Ok s.env), s)

(** val set_cs : cstate -> unit m **)

let set_cs x =
  mbind get_client (fun c ->
    set_client { cfg = c.cfg; cs = x; conns = c.conns })

(** val set_conns : bytes list -> unit m **)

let set_conns x =
  mbind get_client (fun c -> set_client { cfg = c.cfg; cs = c.cs; conns = x })

(** val io : ev_op -> ev_out m **)

let io op s =
  match s.script with
  | [] -> ((Err EOutOfScript), (st_with s [] (op :: s.trace)))
  | o :: r -> ((Ok o), (st_with s r (op :: s.trace)))

(** val with_fuel : (nat -> 'a1 m) -> 'a1 m **)

let with_fuel f s =
  f (S (length s.script)) s

(** val pop_any : bytes option m **)

let pop_any s =
  match s.anyq with
  | [] -> ((Ok None), s)
  | h :: r ->
    ((Ok (Some h)), { script = s.script; trace = s.trace; anyq = r; hostq =
      s.hostq; fetchq = s.fetchq; entryq = s.entryq; cl = s.cl; env = s.env })

(** val pop_hosts : bytes list m **)

let pop_hosts s =
  match s.hostq with
  | [] -> ((Ok []), s)
  | h :: r ->
    ((Ok h), { script = s.script; trace = s.trace; anyq = s.anyq; hostq = r;
      fetchq = s.fetchq; entryq = s.entryq; cl = s.cl; env = s.env })

(** val pop_entries : (bytes * z) list m **)

let pop_entries s =
  match s.entryq with
  | [] -> ((Ok []), s)
  | h :: r ->
    ((Ok h), { script = s.script; trace = s.trace; anyq = s.anyq; hostq =
      s.hostq; fetchq = s.fetchq; entryq = r; cl = s.cl; env = s.env })

(** val get_fetch_order : bytes -> (bytes * z list) list option m **)

let get_fetch_order h s =
  ((Ok (assoc_bytes h s.fetchq)), s)

(** val write_all : nat -> bytes -> bytes -> unit m **)

let rec write_all fuel h buf = match buf with
| [] -> ret ()
| _ :: _ ->
  (match fuel with
   | O -> fail EOutOfFuel
   | S f ->
     mbind (io (EWrite (h, buf))) (fun o ->
       match o with
       | OWrote k ->
         if Z.leb k Z0
         then fail (EIo IoWriteZero)
         else write_all f h (skipn (Z.to_nat k) buf)
       | OWriteIntr -> write_all f h buf
       | OWriteFail e -> fail (EIo e)
       | _ -> fail EOutOfScript))

(** val send : bytes -> bytes -> z m **)

let send h msg =
  mbind (with_fuel (fun f -> write_all f h msg)) (fun _ -> ret (ulen msg))

(** val read_exact : nat -> bytes -> z -> bytes -> bytes m **)

let rec read_exact fuel h n0 acc =
  if Z.leb n0 Z0
  then ret acc
  else (match fuel with
        | O -> fail EOutOfFuel
        | S f ->
          mbind (io (ERead (h, n0))) (fun o ->
            match o with
            | OData bs ->
              (match bs with
               | [] -> fail (EIo IoUnexpectedEof)
               | _ :: _ -> read_exact f h (Z.sub n0 (ulen bs)) (app acc bs))
            | OReadIntr -> read_exact f h n0 acc
            | OReadFail e -> fail (EIo e)
            | _ -> fail EOutOfScript))

(** val read_exact_alloc : bytes -> z -> bytes m **)

let read_exact_alloc h size =
  if Z.ltb size Z0
  then mpanic
         (tag (String ((Ascii (true, true, false, false, false, true, true,
           false)), (String ((Ascii (true, false, false, false, false, true,
           true, false)), (String ((Ascii (false, false, false, false, true,
           true, true, false)), (String ((Ascii (true, false, false, false,
           false, true, true, false)), (String ((Ascii (true, true, false,
           false, false, true, true, false)), (String ((Ascii (true, false,
           false, true, false, true, true, false)), (String ((Ascii (false,
           false, true, false, true, true, true, false)), (String ((Ascii
           (true, false, false, true, true, true, true, false)), (String
           ((Ascii (false, false, false, false, false, true, false, false)),
           (String ((Ascii (true, true, true, true, false, true, true,
           false)), (String ((Ascii (false, true, true, false, true, true,
           true, false)), (String ((Ascii (true, false, true, false, false,
           true, true, false)), (String ((Ascii (false, true, false, false,
           true, true, true, false)), (String ((Ascii (false, true, true,
           false, false, true, true, false)), (String ((Ascii (false, false,
           true, true, false, true, true, false)), (String ((Ascii (true,
           true, true, true, false, true, true, false)), (String ((Ascii
           (true, true, true, false, true, true, true, false)),
           EmptyString)))))))))))))))))))))))))))))))))))
  else if Z.leb alloc_limit size
       then lift alloc_panic
       else with_fuel (fun f -> read_exact f h size [])

(** val get_response_size : bytes -> z m **)

let get_response_size h =
  mbind (with_fuel (fun f -> read_exact f h (Zpos (XO (XO XH))) []))
    (fun b -> ret (be_dec_s b))

(** val idle_expired : config -> bool **)

let idle_expired c =
  (&&) (Z.eqb (fst c.idle_timeout) Z0) (Z.eqb (snd c.idle_timeout) Z0)

(** val in_pool : bytes -> bytes list -> bool **)

let in_pool h l =
  existsb (bytes_eqb h) l

(** val new_conn : bytes -> unit m **)

let new_conn h =
  mbind (io (EConnect h)) (fun o ->
    match o with
    | OConn ok -> if ok then ret () else fail (EIo IoConnRefused)
    | _ -> fail EOutOfScript)

(** val shutdown : bytes -> unit m **)

let shutdown h =
  mbind (io (EShutdown h)) (fun _ -> ret ())

(** val get_conn : bytes -> unit m **)

let get_conn h =
  mbind get_client (fun c ->
    if in_pool h c.conns
    then if idle_expired c.cfg
         then mbind (new_conn h) (fun _ -> shutdown h)
         else ret ()
    else mbind (new_conn h) (fun _ -> set_conns (app c.conns (h :: []))))

(** val get_conn_any : bytes option m **)

let get_conn_any =
  mbind get_client (fun c ->
    match c.conns with
    | [] -> ret None
    | first :: _ ->
      mbind pop_any (fun pick ->
        let h =
          match pick with
          | Some h -> if in_pool h c.conns then h else first
          | None -> first
        in
        if idle_expired c.cfg
        then mbind (mtry (new_conn h)) (fun r ->
               match r with
               | Ok _ -> mbind (shutdown h) (fun _ -> ret (Some h))
               | _ -> ret None)
        else ret (Some h)))

(** val send_request : bytes -> bytes res -> z m **)

let send_request h payload =
  mbind (lift payload) (fun p -> send h (frame p))

(** val get_response_bytes : bytes -> bytes m **)

let get_response_bytes h =
  mbind (get_response_size h) (fun size -> read_exact_alloc h size)

(** val get_response : 'a1 dec -> bytes -> 'a1 m **)

let get_response d h =
  mbind (get_response_bytes h) (fun b ->
    mbind (lift (d b)) (fun x -> let (a, _) = x in ret a))

(** val send_receive : 'a1 dec -> bytes -> bytes res -> 'a1 m **)

let send_receive d h payload =
  mbind (get_conn h) (fun _ ->
    mbind (send_request h payload) (fun _ -> get_response d h))

type val0 =
| VI of z
| VB of bytes
| VL of val0 list
| VT of bytes * val0 list

(** val vint : val0 -> z **)

let vint = function
| VI z0 -> z0
| _ -> Z0

(** val vbytes : val0 -> bytes **)

let vbytes = function
| VB b -> b
| _ -> []

(** val vlist : val0 -> val0 list **)

let vlist = function
| VL l -> l
| _ -> []

(** val vname : val0 -> bytes **)

let vname = function
| VT (n0, _) -> n0
| _ -> []

(** val vargs : val0 -> val0 list **)

let vargs = function
| VT (_, a) -> a
| _ -> []

(** val varg : val0 -> nat -> val0 **)

let varg v i =
  nth i (vargs v) (VI Z0)

(** val is_tag : val0 -> string -> bool **)

let is_tag v s =
  bytes_eqb (vname v) (tag s)

(** val vt : string -> val0 list -> val0 **)

let vt s args =
  VT ((tag s), args)

(** val vbool : bool -> val0 **)

let vbool b =
  VI (if b then Zpos XH else Z0)

(** val vunit : val0 **)

let vunit =
  VL []

(** val ioerr_val : ioerr -> val0 **)

let ioerr_val = function
| IoUnexpectedEof ->
  vt (String ((Ascii (true, false, true, false, false, true, true, false)),
    (String ((Ascii (true, true, true, true, false, true, true, false)),
    (String ((Ascii (false, true, true, false, false, true, true, false)),
    EmptyString)))))) []
| IoWriteZero ->
  vt (String ((Ascii (true, true, true, false, true, true, true, false)),
    (String ((Ascii (false, true, false, false, true, true, true, false)),
    (String ((Ascii (true, false, false, true, false, true, true, false)),
    (String ((Ascii (false, false, true, false, true, true, true, false)),
    (String ((Ascii (true, false, true, false, false, true, true, false)),
    (String ((Ascii (false, true, false, true, true, true, true, false)),
    (String ((Ascii (true, false, true, false, false, true, true, false)),
    (String ((Ascii (false, true, false, false, true, true, true, false)),
    (String ((Ascii (true, true, true, true, false, true, true, false)),
    EmptyString)))))))))))))))))) []
| IoTimedOut ->
  vt (String ((Ascii (false, false, true, false, true, true, true, false)),
    (String ((Ascii (true, false, false, true, false, true, true, false)),
    (String ((Ascii (true, false, true, true, false, true, true, false)),
    (String ((Ascii (true, false, true, false, false, true, true, false)),
    (String ((Ascii (true, true, true, true, false, true, true, false)),
    (String ((Ascii (true, false, true, false, true, true, true, false)),
    (String ((Ascii (false, false, true, false, true, true, true, false)),
    EmptyString)))))))))))))) []
| IoConnRefused ->
  vt (String ((Ascii (false, true, false, false, true, true, true, false)),
    (String ((Ascii (true, false, true, false, false, true, true, false)),
    (String ((Ascii (false, true, true, false, false, true, true, false)),
    (String ((Ascii (true, false, true, false, true, true, true, false)),
    (String ((Ascii (true, true, false, false, true, true, true, false)),
    (String ((Ascii (true, false, true, false, false, true, true, false)),
    (String ((Ascii (false, false, true, false, false, true, true, false)),
    EmptyString)))))))))))))) []
| IoOther ->
  vt (String ((Ascii (true, true, true, true, false, true, true, false)),
    (String ((Ascii (false, false, true, false, true, true, true, false)),
    (String ((Ascii (false, false, false, true, false, true, true, false)),
    (String ((Ascii (true, false, true, false, false, true, true, false)),
    (String ((Ascii (false, true, false, false, true, true, true, false)),
    EmptyString)))))))))) []

(** val ioerr_of : val0 -> ioerr **)

let ioerr_of v =
  if is_tag v (String ((Ascii (true, false, true, false, false, true, true,
       false)), (String ((Ascii (true, true, true, true, false, true, true,
       false)), (String ((Ascii (false, true, true, false, false, true, true,
       false)), EmptyString))))))
  then IoUnexpectedEof
  else if is_tag v (String ((Ascii (true, true, true, false, true, true,
            true, false)), (String ((Ascii (false, true, false, false, true,
            true, true, false)), (String ((Ascii (true, false, false, true,
            false, true, true, false)), (String ((Ascii (false, false, true,
            false, true, true, true, false)), (String ((Ascii (true, false,
            true, false, false, true, true, false)), (String ((Ascii (false,
            true, false, true, true, true, true, false)), (String ((Ascii
            (true, false, true, false, false, true, true, false)), (String
            ((Ascii (false, true, false, false, true, true, true, false)),
            (String ((Ascii (true, true, true, true, false, true, true,
            false)), EmptyString))))))))))))))))))
       then IoWriteZero
       else if is_tag v (String ((Ascii (false, false, true, false, true,
                 true, true, false)), (String ((Ascii (true, false, false,
                 true, false, true, true, false)), (String ((Ascii (true,
                 false, true, true, false, true, true, false)), (String
                 ((Ascii (true, false, true, false, false, true, true,
                 false)), (String ((Ascii (true, true, true, true, false,
                 true, true, false)), (String ((Ascii (true, false, true,
                 false, true, true, true, false)), (String ((Ascii (false,
                 false, true, false, true, true, true, false)),
                 EmptyString))))))))))))))
            then IoTimedOut
            else if is_tag v (String ((Ascii (false, true, false, false,
                      true, true, true, false)), (String ((Ascii (true,
                      false, true, false, false, true, true, false)), (String
                      ((Ascii (false, true, true, false, false, true, true,
                      false)), (String ((Ascii (true, false, true, false,
                      true, true, true, false)), (String ((Ascii (true, true,
                      false, false, true, true, true, false)), (String
                      ((Ascii (true, false, true, false, false, true, true,
                      false)), (String ((Ascii (false, false, true, false,
                      false, true, true, false)), EmptyString))))))))))))))
                 then IoConnRefused
                 else IoOther

(** val err_val : err -> val0 **)

let err_val = function
| EIo k ->
  vt (String ((Ascii (true, false, false, true, false, true, true, false)),
    (String ((Ascii (true, true, true, true, false, true, true, false)),
    EmptyString)))) ((ioerr_val k) :: [])
| EInvalidSnappy ->
  vt (String ((Ascii (true, false, false, true, false, true, true, false)),
    (String ((Ascii (false, true, true, true, false, true, true, false)),
    (String ((Ascii (false, true, true, false, true, true, true, false)),
    (String ((Ascii (true, false, false, false, false, true, true, false)),
    (String ((Ascii (false, false, true, true, false, true, true, false)),
    (String ((Ascii (true, false, false, true, false, true, true, false)),
    (String ((Ascii (false, false, true, false, false, true, true, false)),
    (String ((Ascii (true, true, true, true, true, false, true, false)),
    (String ((Ascii (true, true, false, false, true, true, true, false)),
    (String ((Ascii (false, true, true, true, false, true, true, false)),
    (String ((Ascii (true, false, false, false, false, true, true, false)),
    (String ((Ascii (false, false, false, false, true, true, true, false)),
    (String ((Ascii (false, false, false, false, true, true, true, false)),
    (String ((Ascii (true, false, false, true, true, true, true, false)),
    EmptyString)))))))))))))))))))))))))))) []
| EKafka c ->
  vt (String ((Ascii (true, true, false, true, false, true, true, false)),
    (String ((Ascii (true, false, false, false, false, true, true, false)),
    (String ((Ascii (false, true, true, false, false, true, true, false)),
    (String ((Ascii (true, true, false, true, false, true, true, false)),
    (String ((Ascii (true, false, false, false, false, true, true, false)),
    EmptyString)))))))))) ((VI c) :: [])
| ETopicPartition (t0, p, c) ->
  vt (String ((Ascii (false, false, true, false, true, true, true, false)),
    (String ((Ascii (false, false, false, false, true, true, true, false)),
    (String ((Ascii (true, false, true, false, false, true, true, false)),
    (String ((Ascii (false, true, false, false, true, true, true, false)),
    (String ((Ascii (false, true, false, false, true, true, true, false)),
    EmptyString)))))))))) ((VB t0) :: ((VI p) :: ((VI c) :: [])))
| EUnsupportedProtocol ->
  vt (String ((Ascii (true, false, true, false, true, true, true, false)),
    (String ((Ascii (false, true, true, true, false, true, true, false)),
    (String ((Ascii (true, true, false, false, true, true, true, false)),
    (String ((Ascii (true, false, true, false, true, true, true, false)),
    (String ((Ascii (false, false, false, false, true, true, true, false)),
    (String ((Ascii (false, false, false, false, true, true, true, false)),
    (String ((Ascii (true, true, true, true, false, true, true, false)),
    (String ((Ascii (false, true, false, false, true, true, true, false)),
    (String ((Ascii (false, false, true, false, true, true, true, false)),
    (String ((Ascii (true, false, true, false, false, true, true, false)),
    (String ((Ascii (false, false, true, false, false, true, true, false)),
    (String ((Ascii (true, true, true, true, true, false, true, false)),
    (String ((Ascii (false, false, false, false, true, true, true, false)),
    (String ((Ascii (false, true, false, false, true, true, true, false)),
    (String ((Ascii (true, true, true, true, false, true, true, false)),
    (String ((Ascii (false, false, true, false, true, true, true, false)),
    (String ((Ascii (true, true, true, true, false, true, true, false)),
    (String ((Ascii (true, true, false, false, false, true, true, false)),
    (String ((Ascii (true, true, true, true, false, true, true, false)),
    (String ((Ascii (false, false, true, true, false, true, true, false)),
    EmptyString)))))))))))))))))))))))))))))))))))))))) []
| EUnsupportedCompression ->
  vt (String ((Ascii (true, false, true, false, true, true, true, false)),
    (String ((Ascii (false, true, true, true, false, true, true, false)),
    (String ((Ascii (true, true, false, false, true, true, true, false)),
    (String ((Ascii (true, false, true, false, true, true, true, false)),
    (String ((Ascii (false, false, false, false, true, true, true, false)),
    (String ((Ascii (false, false, false, false, true, true, true, false)),
    (String ((Ascii (true, true, true, true, false, true, true, false)),
    (String ((Ascii (false, true, false, false, true, true, true, false)),
    (String ((Ascii (false, false, true, false, true, true, true, false)),
    (String ((Ascii (true, false, true, false, false, true, true, false)),
    (String ((Ascii (false, false, true, false, false, true, true, false)),
    (String ((Ascii (true, true, true, true, true, false, true, false)),
    (String ((Ascii (true, true, false, false, false, true, true, false)),
    (String ((Ascii (true, true, true, true, false, true, true, false)),
    (String ((Ascii (true, false, true, true, false, true, true, false)),
    (String ((Ascii (false, false, false, false, true, true, true, false)),
    (String ((Ascii (false, true, false, false, true, true, true, false)),
    (String ((Ascii (true, false, true, false, false, true, true, false)),
    (String ((Ascii (true, true, false, false, true, true, true, false)),
    (String ((Ascii (true, true, false, false, true, true, true, false)),
    (String ((Ascii (true, false, false, true, false, true, true, false)),
    (String ((Ascii (true, true, true, true, false, true, true, false)),
    (String ((Ascii (false, true, true, true, false, true, true, false)),
    EmptyString)))))))))))))))))))))))))))))))))))))))))))))) []
| EUnexpectedEOF ->
  vt (String ((Ascii (true, false, true, false, true, true, true, false)),
    (String ((Ascii (false, true, true, true, false, true, true, false)),
    (String ((Ascii (true, false, true, false, false, true, true, false)),
    (String ((Ascii (false, false, false, true, true, true, true, false)),
    (String ((Ascii (false, false, false, false, true, true, true, false)),
    (String ((Ascii (true, false, true, false, false, true, true, false)),
    (String ((Ascii (true, true, false, false, false, true, true, false)),
    (String ((Ascii (false, false, true, false, true, true, true, false)),
    (String ((Ascii (true, false, true, false, false, true, true, false)),
    (String ((Ascii (false, false, true, false, false, true, true, false)),
    (String ((Ascii (true, true, true, true, true, false, true, false)),
    (String ((Ascii (true, false, true, false, false, true, true, false)),
    (String ((Ascii (true, true, true, true, false, true, true, false)),
    (String ((Ascii (false, true, true, false, false, true, true, false)),
    EmptyString)))))))))))))))))))))))))))) []
| ECodec ->
  vt (String ((Ascii (true, true, false, false, false, true, true, false)),
    (String ((Ascii (true, true, true, true, false, true, true, false)),
    (String ((Ascii (false, false, true, false, false, true, true, false)),
    (String ((Ascii (true, false, true, false, false, true, true, false)),
    (String ((Ascii (true, true, false, false, false, true, true, false)),
    EmptyString)))))))))) []
| EStringDecode ->
  vt (String ((Ascii (true, true, false, false, true, true, true, false)),
    (String ((Ascii (false, false, true, false, true, true, true, false)),
    (String ((Ascii (false, true, false, false, true, true, true, false)),
    (String ((Ascii (true, false, false, true, false, true, true, false)),
    (String ((Ascii (false, true, true, true, false, true, true, false)),
    (String ((Ascii (true, true, true, false, false, true, true, false)),
    (String ((Ascii (true, true, true, true, true, false, true, false)),
    (String ((Ascii (false, false, true, false, false, true, true, false)),
    (String ((Ascii (true, false, true, false, false, true, true, false)),
    (String ((Ascii (true, true, false, false, false, true, true, false)),
    (String ((Ascii (true, true, true, true, false, true, true, false)),
    (String ((Ascii (false, false, true, false, false, true, true, false)),
    (String ((Ascii (true, false, true, false, false, true, true, false)),
    EmptyString)))))))))))))))))))))))))) []
| ENoHostReachable ->
  vt (String ((Ascii (false, true, true, true, false, true, true, false)),
    (String ((Ascii (true, true, true, true, false, true, true, false)),
    (String ((Ascii (true, true, true, true, true, false, true, false)),
    (String ((Ascii (false, false, false, true, false, true, true, false)),
    (String ((Ascii (true, true, true, true, false, true, true, false)),
    (String ((Ascii (true, true, false, false, true, true, true, false)),
    (String ((Ascii (false, false, true, false, true, true, true, false)),
    (String ((Ascii (true, true, true, true, true, false, true, false)),
    (String ((Ascii (false, true, false, false, true, true, true, false)),
    (String ((Ascii (true, false, true, false, false, true, true, false)),
    (String ((Ascii (true, false, false, false, false, true, true, false)),
    (String ((Ascii (true, true, false, false, false, true, true, false)),
    (String ((Ascii (false, false, false, true, false, true, true, false)),
    (String ((Ascii (true, false, false, false, false, true, true, false)),
    (String ((Ascii (false, true, false, false, false, true, true, false)),
    (String ((Ascii (false, false, true, true, false, true, true, false)),
    (String ((Ascii (true, false, true, false, false, true, true, false)),
    EmptyString)))))))))))))))))))))))))))))))))) []
| ENoTopicsAssigned ->
  vt (String ((Ascii (false, true, true, true, false, true, true, false)),
    (String ((Ascii (true, true, true, true, false, true, true, false)),
    (String ((Ascii (true, true, true, true, true, false, true, false)),
    (String ((Ascii (false, false, true, false, true, true, true, false)),
    (String ((Ascii (true, true, true, true, false, true, true, false)),
    (String ((Ascii (false, false, false, false, true, true, true, false)),
    (String ((Ascii (true, false, false, true, false, true, true, false)),
    (String ((Ascii (true, true, false, false, false, true, true, false)),
    (String ((Ascii (true, true, false, false, true, true, true, false)),
    (String ((Ascii (true, true, true, true, true, false, true, false)),
    (String ((Ascii (true, false, false, false, false, true, true, false)),
    (String ((Ascii (true, true, false, false, true, true, true, false)),
    (String ((Ascii (true, true, false, false, true, true, true, false)),
    (String ((Ascii (true, false, false, true, false, true, true, false)),
    (String ((Ascii (true, true, true, false, false, true, true, false)),
    (String ((Ascii (false, true, true, true, false, true, true, false)),
    (String ((Ascii (true, false, true, false, false, true, true, false)),
    (String ((Ascii (false, false, true, false, false, true, true, false)),
    EmptyString)))))))))))))))))))))))))))))))))))) []
| EInvalidDuration ->
  vt (String ((Ascii (true, false, false, true, false, true, true, false)),
    (String ((Ascii (false, true, true, true, false, true, true, false)),
    (String ((Ascii (false, true, true, false, true, true, true, false)),
    (String ((Ascii (true, false, false, false, false, true, true, false)),
    (String ((Ascii (false, false, true, true, false, true, true, false)),
    (String ((Ascii (true, false, false, true, false, true, true, false)),
    (String ((Ascii (false, false, true, false, false, true, true, false)),
    (String ((Ascii (true, true, true, true, true, false, true, false)),
    (String ((Ascii (false, false, true, false, false, true, true, false)),
    (String ((Ascii (true, false, true, false, true, true, true, false)),
    (String ((Ascii (false, true, false, false, true, true, true, false)),
    (String ((Ascii (true, false, false, false, false, true, true, false)),
    (String ((Ascii (false, false, true, false, true, true, true, false)),
    (String ((Ascii (true, false, false, true, false, true, true, false)),
    (String ((Ascii (true, true, true, true, false, true, true, false)),
    (String ((Ascii (false, true, true, true, false, true, true, false)),
    EmptyString)))))))))))))))))))))))))))))))) []
| EUnsetOffsetStorage ->
  vt (String ((Ascii (true, false, true, false, true, true, true, false)),
    (String ((Ascii (false, true, true, true, false, true, true, false)),
    (String ((Ascii (true, true, false, false, true, true, true, false)),
    (String ((Ascii (true, false, true, false, false, true, true, false)),
    (String ((Ascii (false, false, true, false, true, true, true, false)),
    (String ((Ascii (true, true, true, true, true, false, true, false)),
    (String ((Ascii (true, true, true, true, false, true, true, false)),
    (String ((Ascii (false, true, true, false, false, true, true, false)),
    (String ((Ascii (false, true, true, false, false, true, true, false)),
    (String ((Ascii (true, true, false, false, true, true, true, false)),
    (String ((Ascii (true, false, true, false, false, true, true, false)),
    (String ((Ascii (false, false, true, false, true, true, true, false)),
    (String ((Ascii (true, true, true, true, true, false, true, false)),
    (String ((Ascii (true, true, false, false, true, true, true, false)),
    (String ((Ascii (false, false, true, false, true, true, true, false)),
    (String ((Ascii (true, true, true, true, false, true, true, false)),
    (String ((Ascii (false, true, false, false, true, true, true, false)),
    (String ((Ascii (true, false, false, false, false, true, true, false)),
    (String ((Ascii (true, true, true, false, false, true, true, false)),
    (String ((Ascii (true, false, true, false, false, true, true, false)),
    EmptyString)))))))))))))))))))))))))))))))))))))))) []
| EUnsetGroupId ->
  vt (String ((Ascii (true, false, true, false, true, true, true, false)),
    (String ((Ascii (false, true, true, true, false, true, true, false)),
    (String ((Ascii (true, true, false, false, true, true, true, false)),
    (String ((Ascii (true, false, true, false, false, true, true, false)),
    (String ((Ascii (false, false, true, false, true, true, true, false)),
    (String ((Ascii (true, true, true, true, true, false, true, false)),
    (String ((Ascii (true, true, true, false, false, true, true, false)),
    (String ((Ascii (false, true, false, false, true, true, true, false)),
    (String ((Ascii (true, true, true, true, false, true, true, false)),
    (String ((Ascii (true, false, true, false, true, true, true, false)),
    (String ((Ascii (false, false, false, false, true, true, true, false)),
    (String ((Ascii (true, true, true, true, true, false, true, false)),
    (String ((Ascii (true, false, false, true, false, true, true, false)),
    (String ((Ascii (false, false, true, false, false, true, true, false)),
    EmptyString)))))))))))))))))))))))))))) []
| EOutOfScript ->
  vt (String ((Ascii (true, false, true, true, false, true, true, false)),
    (String ((Ascii (true, true, true, true, false, true, true, false)),
    (String ((Ascii (false, false, true, false, false, true, true, false)),
    (String ((Ascii (true, false, true, false, false, true, true, false)),
    (String ((Ascii (false, false, true, true, false, true, true, false)),
    (String ((Ascii (true, true, true, true, true, false, true, false)),
    (String ((Ascii (true, true, true, true, false, true, true, false)),
    (String ((Ascii (true, false, true, false, true, true, true, false)),
    (String ((Ascii (false, false, true, false, true, true, true, false)),
    (String ((Ascii (true, true, true, true, true, false, true, false)),
    (String ((Ascii (true, true, true, true, false, true, true, false)),
    (String ((Ascii (false, true, true, false, false, true, true, false)),
    (String ((Ascii (true, true, true, true, true, false, true, false)),
    (String ((Ascii (true, true, false, false, true, true, true, false)),
    (String ((Ascii (true, true, false, false, false, true, true, false)),
    (String ((Ascii (false, true, false, false, true, true, true, false)),
    (String ((Ascii (true, false, false, true, false, true, true, false)),
    (String ((Ascii (false, false, false, false, true, true, true, false)),
    (String ((Ascii (false, false, true, false, true, true, true, false)),
    EmptyString)))))))))))))))))))))))))))))))))))))) []
| EOutOfFuel ->
  vt (String ((Ascii (true, false, true, true, false, true, true, false)),
    (String ((Ascii (true, true, true, true, false, true, true, false)),
    (String ((Ascii (false, false, true, false, false, true, true, false)),
    (String ((Ascii (true, false, true, false, false, true, true, false)),
    (String ((Ascii (false, false, true, true, false, true, true, false)),
    (String ((Ascii (true, true, true, true, true, false, true, false)),
    (String ((Ascii (true, true, true, true, false, true, true, false)),
    (String ((Ascii (true, false, true, false, true, true, true, false)),
    (String ((Ascii (false, false, true, false, true, true, true, false)),
    (String ((Ascii (true, true, true, true, true, false, true, false)),
    (String ((Ascii (true, true, true, true, false, true, true, false)),
    (String ((Ascii (false, true, true, false, false, true, true, false)),
    (String ((Ascii (true, true, true, true, true, false, true, false)),
    (String ((Ascii (false, true, true, false, false, true, true, false)),
    (String ((Ascii (true, false, true, false, true, true, true, false)),
    (String ((Ascii (true, false, true, false, false, true, true, false)),
    (String ((Ascii (false, false, true, true, false, true, true, false)),
    EmptyString)))))))))))))))))))))))))))))))))) []

(** val res_val : ('a1 -> val0) -> 'a1 res -> val0 **)

let res_val f = function
| Ok a ->
  vt (String ((Ascii (true, true, true, true, false, true, true, false)),
    (String ((Ascii (true, true, false, true, false, true, true, false)),
    EmptyString)))) ((f a) :: [])
| Err e ->
  vt (String ((Ascii (true, false, true, false, false, true, true, false)),
    (String ((Ascii (false, true, false, false, true, true, true, false)),
    (String ((Ascii (false, true, false, false, true, true, true, false)),
    EmptyString)))))) ((err_val e) :: [])
| Panic w ->
  vt (String ((Ascii (false, false, false, false, true, true, true, false)),
    (String ((Ascii (true, false, false, false, false, true, true, false)),
    (String ((Ascii (false, true, true, true, false, true, true, false)),
    (String ((Ascii (true, false, false, true, false, true, true, false)),
    (String ((Ascii (true, true, false, false, false, true, true, false)),
    EmptyString)))))))))) ((VB w) :: [])

(** val ev_out_of : val0 -> ev_out **)

let ev_out_of v =
  if is_tag v (String ((Ascii (true, true, false, false, false, true, true,
       false)), (String ((Ascii (true, true, true, true, false, true, true,
       false)), (String ((Ascii (false, true, true, true, false, true, true,
       false)), (String ((Ascii (false, true, true, true, false, true, true,
       false)), EmptyString))))))))
  then OConn (negb (Z.eqb (vint (varg v O)) Z0))
  else if is_tag v (String ((Ascii (true, true, true, false, true, true,
            true, false)), (String ((Ascii (false, true, false, false, true,
            true, true, false)), (String ((Ascii (true, true, true, true,
            false, true, true, false)), (String ((Ascii (false, false, true,
            false, true, true, true, false)), (String ((Ascii (true, false,
            true, false, false, true, true, false)), EmptyString))))))))))
       then OWrote (vint (varg v O))
       else if is_tag v (String ((Ascii (true, true, true, false, true, true,
                 true, false)), (String ((Ascii (true, false, false, true,
                 false, true, true, false)), (String ((Ascii (false, true,
                 true, true, false, true, true, false)), (String ((Ascii
                 (false, false, true, false, true, true, true, false)),
                 (String ((Ascii (false, true, false, false, true, true,
                 true, false)), EmptyString))))))))))
            then OWriteIntr
            else if is_tag v (String ((Ascii (true, true, true, false, true,
                      true, true, false)), (String ((Ascii (false, true,
                      true, false, false, true, true, false)), (String
                      ((Ascii (true, false, false, false, false, true, true,
                      false)), (String ((Ascii (true, false, false, true,
                      false, true, true, false)), (String ((Ascii (false,
                      false, true, true, false, true, true, false)),
                      EmptyString))))))))))
                 then OWriteFail (ioerr_of (varg v O))
                 else if is_tag v (String ((Ascii (false, false, true, false,
                           false, true, true, false)), (String ((Ascii (true,
                           false, false, false, false, true, true, false)),
                           (String ((Ascii (false, false, true, false, true,
                           true, true, false)), (String ((Ascii (true, false,
                           false, false, false, true, true, false)),
                           EmptyString))))))))
                      then OData (vbytes (varg v O))
                      else if is_tag v (String ((Ascii (false, true, false,
                                false, true, true, true, false)), (String
                                ((Ascii (true, false, false, true, false,
                                true, true, false)), (String ((Ascii (false,
                                true, true, true, false, true, true, false)),
                                (String ((Ascii (false, false, true, false,
                                true, true, true, false)), (String ((Ascii
                                (false, true, false, false, true, true, true,
                                false)), EmptyString))))))))))
                           then OReadIntr
                           else if is_tag v (String ((Ascii (false, true,
                                     false, false, true, true, true, false)),
                                     (String ((Ascii (false, true, true,
                                     false, false, true, true, false)),
                                     (String ((Ascii (true, false, false,
                                     false, false, true, true, false)),
                                     (String ((Ascii (true, false, false,
                                     true, false, true, true, false)),
                                     (String ((Ascii (false, false, true,
                                     true, false, true, true, false)),
                                     EmptyString))))))))))
                                then OReadFail (ioerr_of (varg v O))
                                else OShut

(** val ev_op_val : ev_op -> val0 **)

let ev_op_val = function
| EConnect h ->
  vt (String ((Ascii (true, true, false, false, false, true, true, false)),
    (String ((Ascii (true, true, true, true, false, true, true, false)),
    (String ((Ascii (false, true, true, true, false, true, true, false)),
    (String ((Ascii (false, true, true, true, false, true, true, false)),
    (String ((Ascii (true, false, true, false, false, true, true, false)),
    (String ((Ascii (true, true, false, false, false, true, true, false)),
    (String ((Ascii (false, false, true, false, true, true, true, false)),
    EmptyString)))))))))))))) ((VB h) :: [])
| EWrite (h, bs) ->
  vt (String ((Ascii (true, true, true, false, true, true, true, false)),
    (String ((Ascii (false, true, false, false, true, true, true, false)),
    (String ((Ascii (true, false, false, true, false, true, true, false)),
    (String ((Ascii (false, false, true, false, true, true, true, false)),
    (String ((Ascii (true, false, true, false, false, true, true, false)),
    EmptyString)))))))))) ((VB h) :: ((VB bs) :: []))
| ERead (h, n0) ->
  vt (String ((Ascii (false, true, false, false, true, true, true, false)),
    (String ((Ascii (true, false, true, false, false, true, true, false)),
    (String ((Ascii (true, false, false, false, false, true, true, false)),
    (String ((Ascii (false, false, true, false, false, true, true, false)),
    EmptyString)))))))) ((VB h) :: ((VI n0) :: []))
| EShutdown h ->
  vt (String ((Ascii (true, true, false, false, true, true, true, false)),
    (String ((Ascii (false, false, false, true, false, true, true, false)),
    (String ((Ascii (true, false, true, false, true, true, true, false)),
    (String ((Ascii (false, false, true, false, true, true, true, false)),
    (String ((Ascii (false, false, true, false, false, true, true, false)),
    (String ((Ascii (true, true, true, true, false, true, true, false)),
    (String ((Ascii (true, true, true, false, true, true, true, false)),
    (String ((Ascii (false, true, true, true, false, true, true, false)),
    EmptyString)))))))))))))))) ((VB h) :: [])

(** val lookup_bytes : bytes -> (bytes * bytes) list -> bytes option **)

let rec lookup_bytes k = function
| [] -> None
| p :: r ->
  let (k', v) = p in if bytes_eqb k' k then Some v else lookup_bytes k r

(** val pair_of : val0 -> bytes * bytes **)

let pair_of v =
  ((vbytes (varg v O)), (vbytes (varg v (S O))))

(** val env_of : val0 -> codecs **)

let env_of v =
  let gz = map pair_of (vlist (varg v O)) in
  let sn = map pair_of (vlist (varg v (S O))) in
  let gu = map pair_of (vlist (varg v (S (S O)))) in
  { gz_compress = (fun b ->
  match lookup_bytes b gz with
  | Some c -> c
  | None -> []); sn_compress = (fun b ->
  match lookup_bytes b sn with
  | Some c -> c
  | None -> []); gz_decompress = (fun c -> lookup_bytes c gu); debug_build =
  (negb (Z.eqb (vint (varg v (S (S (S (S O)))))) Z0)) }

(** val u64_max : z **)

let u64_max =
  Zpos (XI (XI (XI (XI (XI (XI (XI (XI (XI (XI (XI (XI (XI (XI (XI (XI (XI
    (XI (XI (XI (XI (XI (XI (XI (XI (XI (XI (XI (XI (XI (XI (XI (XI (XI (XI
    (XI (XI (XI (XI (XI (XI (XI (XI (XI (XI (XI (XI (XI (XI (XI (XI (XI (XI
    (XI (XI (XI (XI (XI (XI (XI (XI (XI (XI
    XH)))))))))))))))))))))))))))))))))))))))))))))))))))))))))))))))

(** val to_millis_i32 : (z * z) -> z res **)

let to_millis_i32 d =
  let m1 =
    Z.min
      (Z.mul (fst d) (Zpos (XO (XO (XO (XI (XO (XI (XI (XI (XI XH)))))))))))
      u64_max
  in
  let m0 =
    Z.min
      (Z.add m1
        (Z.div (snd d) (Zpos (XO (XO (XO (XO (XO (XO (XI (XO (XO (XI (XO (XO
          (XO (XO (XI (XO (XI (XI (XI XH)))))))))))))))))))))) u64_max
  in
  if Z.ltb i32_max m0 then Err EInvalidDuration else Ok m0

(** val default_config : bytes list -> config **)

let default_config hs =
  { client_id = []; hosts = hs; compression = dEFAULT_COMPRESSION;
    fetch_max_wait_time = dEFAULT_FETCH_MAX_WAIT_TIME_MILLIS;
    fetch_min_bytes = dEFAULT_FETCH_MIN_BYTES;
    fetch_max_bytes_per_partition = dEFAULT_FETCH_MAX_BYTES_PER_PARTITION;
    fetch_crc_validation = dEFAULT_FETCH_CRC_VALIDATION; offset_storage =
    (Zneg XH); retry_backoff_time =
    ((Z.div dEFAULT_RETRY_BACKOFF_TIME_MILLIS (Zpos (XO (XO (XO (XI (XO (XI
       (XI (XI (XI XH))))))))))),
    (Z.mul
      (Z.modulo dEFAULT_RETRY_BACKOFF_TIME_MILLIS (Zpos (XO (XO (XO (XI (XO
        (XI (XI (XI (XI XH))))))))))) (Zpos (XO (XO (XO (XO (XO (XO (XI (XO
      (XO (XI (XO (XO (XO (XO (XI (XO (XI (XI (XI XH))))))))))))))))))))));
    retry_max_attempts = dEFAULT_RETRY_MAX_ATTEMPTS; idle_timeout =
    ((Z.div dEFAULT_CONNECTION_IDLE_TIMEOUT_MILLIS (Zpos (XO (XO (XO (XI (XO
       (XI (XI (XI (XI XH))))))))))),
    (Z.mul
      (Z.modulo dEFAULT_CONNECTION_IDLE_TIMEOUT_MILLIS (Zpos (XO (XO (XO (XI
        (XO (XI (XI (XI (XI XH))))))))))) (Zpos (XO (XO (XO (XO (XO (XO (XI
      (XO (XO (XI (XO (XO (XO (XO (XI (XO (XI (XI (XI XH)))))))))))))))))))))) }

(** val client_new : bytes list -> client **)

let client_new hs =
  { cfg = (default_config hs); cs = cstate_new; conns = [] }

(** val next_corr : z m **)

let next_corr =
  mbind get_client (fun c ->
    let (n0, s') = next_correlation_id c.cs in
    mbind (set_cs s') (fun _ -> ret n0))

(** val take_key :
    bytes -> (bytes * 'a1) list -> ((bytes * 'a1) * (bytes * 'a1) list) option **)

let rec take_key k = function
| [] -> None
| p :: r ->
  let (k', v) = p in
  if bytes_eqb k' k
  then Some ((k', v), r)
  else (match take_key k r with
        | Some p0 -> let (x, r') = p0 in Some (x, ((k', v) :: r'))
        | None -> None)

(** val reorder : bytes list -> (bytes * 'a1) list -> (bytes * 'a1) list **)

let rec reorder order l =
  match order with
  | [] -> l
  | k :: ks ->
    (match take_key k l with
     | Some p -> let (x, r) = p in x :: (reorder ks r)
     | None -> reorder ks l)

(** val take_zkey :
    z -> (z * 'a1) list -> ((z * 'a1) * (z * 'a1) list) option **)

let rec take_zkey k = function
| [] -> None
| p :: r ->
  let (k', v) = p in
  if Z.eqb k' k
  then Some ((k', v), r)
  else (match take_zkey k r with
        | Some p0 -> let (x, r') = p0 in Some (x, ((k', v) :: r'))
        | None -> None)

(** val reorder_z : z list -> (z * 'a1) list -> (z * 'a1) list **)

let rec reorder_z order l =
  match order with
  | [] -> l
  | k :: ks ->
    (match take_zkey k l with
     | Some p -> let (x, r) = p in x :: (reorder_z ks r)
     | None -> reorder_z ks l)

(** val fetch_metadata_hosts :
    z -> bytes list -> bytes list -> metadata_resp m **)

let rec fetch_metadata_hosts corr topics = function
| [] -> fail ENoHostReachable
| h :: r ->
  mbind get_client (fun c ->
    mbind (mtry (get_conn h)) (fun rc ->
      match rc with
      | Ok _ ->
        mbind
          (mtry
            (send_request h (enc_metadata_req corr c.cfg.client_id topics)))
          (fun rs ->
          match rs with
          | Ok _ -> get_response dec_metadata_resp h
          | _ -> fetch_metadata_hosts corr topics r)
      | _ -> fetch_metadata_hosts corr topics r))

(** val fetch_metadata : bytes list -> metadata_resp m **)

let fetch_metadata topics =
  mbind next_corr (fun corr ->
    mbind get_client (fun c -> fetch_metadata_hosts corr topics c.cfg.hosts))

(** val load_metadata : bytes list -> unit m **)

let load_metadata topics =
  mbind (fetch_metadata topics) (fun md ->
    mbind get_client (fun c -> mbind (lift (update_metadata c.cs md)) set_cs))

(** val reset_metadata : unit m **)

let reset_metadata =
  mbind get_client (fun c -> set_cs (clear_metadata c.cs))

(** val load_metadata_all : unit m **)

let load_metadata_all =
  mbind reset_metadata (fun _ -> load_metadata [])

(** val host_add :
    (bytes * (bytes * 'a1 list) list) list -> bytes -> bytes -> 'a1 ->
    (bytes * (bytes * 'a1 list) list) list **)

let rec host_add reqs host topic p =
  match reqs with
  | [] -> (host, (tp_add [] topic p)) :: []
  | p0 :: r ->
    let (h, tps) = p0 in
    if bytes_eqb h host
    then (h, (tp_add tps topic p)) :: r
    else (h, tps) :: (host_add r host topic p)

(** val leaders_from : cstate -> z list -> z -> (z * bytes) list **)

let rec leaders_from s ps id =
  match ps with
  | [] -> []
  | bref :: r ->
    (match broker_of s bref with
     | Some b -> (id, b.b_host) :: (leaders_from s r (Z.add id (Zpos XH)))
     | None -> leaders_from s r (Z.add id (Zpos XH)))

(** val offset_reqs :
    cstate -> bytes list -> z -> (bytes * (bytes * (z * z) list) list) list **)

let offset_reqs s topics time =
  fold_left (fun reqs topic ->
    match partitions_for s topic with
    | Some ps ->
      fold_left (fun reqs0 pat ->
        let (id, host) = pat in host_add reqs0 host topic (id, time))
        (leaders_from s ps Z0) reqs
    | None -> reqs) topics []

(** val res_push :
    (bytes * 'a1 list) list -> bytes -> 'a1 list -> (bytes * 'a1 list) list **)

let rec res_push m0 t0 vs =
  match m0 with
  | [] -> (t0, vs) :: []
  | p :: r ->
    let (t', vs') = p in
    if bytes_eqb t' t0
    then (t', (app vs' vs)) :: r
    else (t', vs') :: (res_push r t0 vs)

(** val collect :
    ('a1 -> ('a2, z) sum) -> ('a1 -> z) -> 'a1 list -> 'a2 list -> ('a2 list,
    z * z) sum **)

let rec collect conv pid ps acc =
  match ps with
  | [] -> Inl acc
  | p :: r ->
    (match conv p with
     | Inl v -> collect conv pid r (app acc (v :: []))
     | Inr code -> Inr ((pid p), code))

(** val merge_topics :
    ('a1 -> ('a2, z) sum) -> ('a1 -> z) -> (bytes * 'a1 list) list ->
    (bytes * 'a2 list) list -> (bytes * 'a2 list) list res **)

let rec merge_topics conv pid tps m0 =
  match tps with
  | [] -> Ok m0
  | p :: r ->
    let (t0, ps) = p in
    (match collect conv pid ps [] with
     | Inl vs -> merge_topics conv pid r (res_push m0 t0 vs)
     | Inr p0 -> let (p6, code) = p0 in Err (ETopicPartition (t0, p6, code)))

(** val offsets_exchange :
    ((bytes * (z * z) list) list -> bytes res) -> (z * (bytes * 'a1 list)
    list) dec -> ('a1 -> ('a2, z) sum) -> ('a1 -> z) ->
    (bytes * (bytes * (z * z) list) list) list -> (bytes * 'a2 list) list ->
    (bytes * 'a2 list) list m **)

let rec offsets_exchange enc d conv pid reqs m0 =
  match reqs with
  | [] -> ret m0
  | p :: r ->
    let (h, tps) = p in
    mbind (send_receive d h (enc tps)) (fun x ->
      let (_, rtps) = x in
      mbind (lift (merge_topics conv pid rtps m0)) (fun m' ->
        offsets_exchange enc d conv pid r m'))

(** val ordered : (bytes * 'a1) list -> (bytes * 'a1) list m **)

let ordered reqs = match reqs with
| [] -> ret []
| _ :: _ -> mbind pop_hosts (fun o -> ret (reorder o reqs))

(** val fetch_offsets : bytes list -> z -> (bytes * (z * z) list) list m **)

let fetch_offsets topics time =
  mbind next_corr (fun corr ->
    mbind get_client (fun c ->
      mbind (ordered (offset_reqs c.cs topics time)) (fun reqs ->
        offsets_exchange (enc_offset_req corr c.cfg.client_id)
          dec_offset_resp to_offset (fun p -> p.por_partition) reqs [])))

(** val list_offsets :
    bytes list -> z -> (bytes * ((z * z) * z) list) list m **)

let list_offsets topics time =
  mbind next_corr (fun corr ->
    mbind get_client (fun c ->
      mbind (ordered (offset_reqs c.cs topics time)) (fun reqs ->
        offsets_exchange (enc_list_offsets_req corr c.cfg.client_id)
          dec_list_offsets_resp lop_to_offset (fun l -> l.lop_partition) reqs
          [])))

(** val fetch_topic_offsets : bytes -> z -> (z * z) list m **)

let fetch_topic_offsets topic time =
  mbind (fetch_offsets (topic :: []) time) (fun m0 ->
    match assoc_bytes topic m0 with
    | Some l ->
      (match l with
       | [] -> fail (EKafka kC_UnknownTopicOrPartition)
       | x :: xs -> ret (x :: xs))
    | None -> fail (EKafka kC_UnknownTopicOrPartition))

type fetch_partition = { fq_topic : bytes; fq_partition : z; fq_offset : 
                         z; fq_max_bytes : z }

(** val fhost_add :
    (bytes * fetch_tps) list -> bytes -> bytes -> z -> z -> z ->
    (bytes * fetch_tps) list **)

let rec fhost_add reqs host topic p off maxb =
  match reqs with
  | [] -> (host, (fetch_add [] topic p off maxb)) :: []
  | p0 :: r ->
    let (h, tps) = p0 in
    if bytes_eqb h host
    then (h, (fetch_add tps topic p off maxb)) :: r
    else (h, tps) :: (fhost_add r host topic p off maxb)

(** val fetch_reqs :
    client -> fetch_partition list -> (bytes * fetch_tps) list **)

let fetch_reqs c input =
  fold_left (fun reqs q ->
    match find_broker c.cs q.fq_topic q.fq_partition with
    | Some host ->
      fhost_add reqs host q.fq_topic q.fq_partition q.fq_offset
        (if Z.ltb Z0 q.fq_max_bytes
         then q.fq_max_bytes
         else c.cfg.fetch_max_bytes_per_partition)
    | None -> reqs) input []

(** val order_fetch : (bytes * z list) list -> fetch_tps -> fetch_tps **)

let order_fetch order tps =
  map (fun pat ->
    let (t0, ps) = pat in
    (t0,
    (match assoc_bytes t0 order with
     | Some po -> reorder_z po ps
     | None -> ps))) (reorder (map fst order) tps)

(** val decode_depth : nat **)

let decode_depth =
  S (S (S (S (S (S (S (S O)))))))

(** val fetch_exchange :
    z -> (bytes * fetch_tps) list -> fetch_resp list -> fetch_resp list m **)

let rec fetch_exchange corr reqs acc =
  match reqs with
  | [] -> ret acc
  | p :: r ->
    let (h, tps) = p in
    mbind get_client (fun c ->
      mbind get_env (fun e ->
        mbind (get_fetch_order h) (fun fo ->
          let tps' = match fo with
                     | Some o -> order_fetch o tps
                     | None -> tps
          in
          mbind (get_conn h) (fun _ ->
            mbind
              (send_request h
                (enc_fetch_req corr c.cfg.client_id c.cfg.fetch_max_wait_time
                  c.cfg.fetch_min_bytes tps')) (fun _ ->
              mbind (get_response_bytes h) (fun b ->
                mbind
                  (lift
                    (fetch_from_vec e decode_depth c.cfg.fetch_crc_validation
                      tps b)) (fun resp ->
                  fetch_exchange corr r (app acc (resp :: [])))))))))

(** val fetch_messages : fetch_partition list -> fetch_resp list m **)

let fetch_messages input =
  mbind next_corr (fun corr ->
    mbind get_client (fun c ->
      mbind (ordered (fetch_reqs c input)) (fun reqs ->
        fetch_exchange corr reqs [])))

type produce_message = { pq_topic : bytes; pq_partition : z;
                         pq_key : bytes option; pq_value : bytes option }

(** val phost_add :
    (bytes * produce_tps) list -> bytes -> bytes -> z -> pmsg ->
    (bytes * produce_tps) list **)

let rec phost_add reqs host topic p m0 =
  match reqs with
  | [] -> (host, (produce_add [] topic p m0)) :: []
  | p0 :: r ->
    let (h, tps) = p0 in
    if bytes_eqb h host
    then (h, (produce_add tps topic p m0)) :: r
    else (h, tps) :: (phost_add r host topic p m0)

(** val produce_reqs :
    cstate -> produce_message list -> (bytes * produce_tps) list ->
    (bytes * produce_tps) list option **)

let rec produce_reqs s msgs reqs =
  match msgs with
  | [] -> Some reqs
  | m0 :: r ->
    (match find_broker s m0.pq_topic m0.pq_partition with
     | Some host ->
       produce_reqs s r
         (phost_add reqs host m0.pq_topic m0.pq_partition (m0.pq_key,
           m0.pq_value))
     | None -> None)

type confirm = bytes * (z * (z, z) sum) list

(** val produce_exchange :
    z -> z -> z -> (bytes * produce_tps) list -> confirm list -> confirm list
    m **)

let rec produce_exchange corr acks timeout reqs acc =
  match reqs with
  | [] -> ret (if Z.eqb acks Z0 then [] else acc)
  | p :: r ->
    let (h, tps) = p in
    mbind get_client (fun c ->
      mbind get_env (fun e ->
        let payload =
          enc_produce_req e corr c.cfg.client_id acks timeout
            c.cfg.compression tps
        in
        if Z.eqb acks Z0
        then mbind (get_conn h) (fun _ ->
               mbind (send_request h payload) (fun _ ->
                 produce_exchange corr acks timeout r acc))
        else mbind (send_receive dec_produce_resp h payload) (fun x ->
               let (_, rtps) = x in
               produce_exchange corr acks timeout r
                 (app acc
                   (map (fun pat ->
                     let (t0, ps) = pat in (t0, (map produce_confirm ps)))
                     rtps)))))

(** val internal_produce_messages :
    z -> z -> produce_message list -> confirm list m **)

let internal_produce_messages acks timeout msgs =
  mbind next_corr (fun corr ->
    mbind get_client (fun c ->
      match produce_reqs c.cs msgs [] with
      | Some reqs ->
        mbind (ordered reqs) (fun reqs' ->
          produce_exchange corr acks timeout reqs' [])
      | None -> fail (EKafka kC_UnknownTopicOrPartition)))

(** val produce_messages :
    z -> (z * z) -> produce_message list -> confirm list m **)

let produce_messages acks ack_timeout msgs =
  mbind (lift (to_millis_i32 ack_timeout)) (fun t0 ->
    internal_produce_messages acks t0 msgs)

(** val group_lookup_attempt : bytes res -> coordinator_resp m **)

let group_lookup_attempt req =
  mbind get_conn_any (fun oh ->
    match oh with
    | Some h ->
      mbind (send_request h req) (fun _ ->
        get_response dec_coordinator_resp h)
    | None ->
      mpanic
        (tag (String ((Ascii (true, false, false, false, false, true, true,
          false)), (String ((Ascii (false, true, true, false, true, true,
          true, false)), (String ((Ascii (true, false, false, false, false,
          true, true, false)), (String ((Ascii (true, false, false, true,
          false, true, true, false)), (String ((Ascii (false, false, true,
          true, false, true, true, false)), (String ((Ascii (true, false,
          false, false, false, true, true, false)), (String ((Ascii (false,
          true, false, false, false, true, true, false)), (String ((Ascii
          (false, false, true, true, false, true, true, false)), (String
          ((Ascii (true, false, true, false, false, true, true, false)),
          (String ((Ascii (false, false, false, false, false, true, false,
          false)), (String ((Ascii (true, true, false, false, false, true,
          true, false)), (String ((Ascii (true, true, true, true, false,
          true, true, false)), (String ((Ascii (false, true, true, true,
          false, true, true, false)), (String ((Ascii (false, true, true,
          true, false, true, true, false)), (String ((Ascii (true, false,
          true, false, false, true, true, false)), (String ((Ascii (true,
          true, false, false, false, true, true, false)), (String ((Ascii
          (false, false, true, false, true, true, true, false)), (String
          ((Ascii (true, false, false, true, false, true, true, false)),
          (String ((Ascii (true, true, true, true, false, true, true,
          false)), (String ((Ascii (false, true, true, true, false, true,
          true, false)), EmptyString))))))))))))))))))))))))))))))))))))))))))

(** val group_lookup_loop : nat -> bytes -> bytes res -> z -> bytes m **)

let rec group_lookup_loop fuel group req attempt =
  match fuel with
  | O -> fail EOutOfFuel
  | S f ->
    mbind (group_lookup_attempt req) (fun r ->
      match from_protocol r.gc_error with
      | Some code ->
        if Z.eqb code kC_GroupCoordinatorNotAvailable
        then mbind get_client (fun c ->
               if Z.ltb attempt c.cfg.retry_max_attempts
               then group_lookup_loop f group req (Z.add attempt (Zpos XH))
               else fail (EKafka code))
        else fail (EKafka code)
      | None ->
        mbind get_client (fun c ->
          let (h, s') = set_group_coordinator c.cs group r in
          mbind (set_cs s') (fun _ -> ret h)))

(** val get_group_coordinator : bytes -> bytes m **)

let get_group_coordinator group =
  mbind get_client (fun c ->
    match group_coordinator c.cs group with
    | Some h -> ret h
    | None ->
      mbind next_corr (fun corr ->
        with_fuel (fun f ->
          group_lookup_loop f group
            (enc_group_coordinator_req corr c.cfg.client_id group) (Zpos XH))))

type scan =
| ScanOk
| ScanRetry of z * bool
| ScanFatal of z

(** val commit_scan_parts : (z * z) list -> scan **)

let rec commit_scan_parts = function
| [] -> ScanOk
| p :: r ->
  let (_, e) = p in
  (match from_protocol e with
   | Some c ->
     if Z.eqb c kC_GroupLoadInProgress
     then ScanRetry (c, false)
     else if Z.eqb c kC_NotCoordinatorForGroup
          then ScanRetry (c, true)
          else ScanFatal c
   | None -> commit_scan_parts r)

(** val commit_scan : (bytes * (z * z) list) list -> scan **)

let rec commit_scan = function
| [] -> ScanOk
| p :: r ->
  let (_, ps) = p in
  (match commit_scan_parts ps with
   | ScanOk -> commit_scan r
   | x -> x)

(** val commit_loop : nat -> bytes -> bytes res -> z -> unit m **)

let rec commit_loop fuel group req attempt =
  match fuel with
  | O -> fail EOutOfFuel
  | S f ->
    mbind (get_group_coordinator group) (fun h ->
      mbind (send_receive dec_offset_commit_resp h req) (fun x ->
        let (_, tps) = x in
        (match commit_scan tps with
         | ScanOk -> ret ()
         | ScanRetry (code, reset) ->
           mbind get_client (fun c ->
             mbind
               (if reset
                then set_cs (remove_group_coordinator c.cs group)
                else ret ()) (fun _ ->
               if Z.ltb attempt c.cfg.retry_max_attempts
               then commit_loop f group req (Z.add attempt (Zpos XH))
               else fail (EKafka code)))
         | ScanFatal c -> fail (EKafka c))))

(** val commit_version : z -> z **)

let commit_version storage =
  if Z.eqb storage Z0
  then sTORAGE_ZK_COMMIT_VERSION
  else sTORAGE_KAFKA_COMMIT_VERSION

(** val fetch_version : z -> z **)

let fetch_version storage =
  if Z.eqb storage Z0
  then sTORAGE_ZK_FETCH_VERSION
  else sTORAGE_KAFKA_FETCH_VERSION

type commit_offset = { co_topic : bytes; co_partition : z; co_offset : z }

(** val commit_tps :
    cstate -> commit_offset list -> (bytes * (z * z) list) list ->
    (bytes * (z * z) list) list option **)

let rec commit_tps s os acc =
  match os with
  | [] -> Some acc
  | o :: r ->
    if contains_topic_partition s o.co_topic o.co_partition
    then commit_tps s r (tp_add acc o.co_topic (o.co_partition, o.co_offset))
    else None

(** val commit_offsets : bytes -> commit_offset list -> unit m **)

let commit_offsets group os =
  mbind get_client (fun c ->
    if Z.ltb c.cfg.offset_storage Z0
    then fail EUnsetOffsetStorage
    else mbind next_corr (fun corr ->
           match commit_tps c.cs os [] with
           | Some tps ->
             (match tps with
              | [] -> ret ()
              | _ :: _ ->
                with_fuel (fun f ->
                  commit_loop f group
                    (enc_offset_commit_req corr c.cfg.client_id group
                      (commit_version c.cfg.offset_storage) tps) (Zpos XH)))
           | None -> fail (EKafka kC_UnknownTopicOrPartition)))

type gscan =
| GOk of (z * z) list
| GRetry of z * bool
| GFatal of z

(** val group_scan_parts : offset_fetch_part list -> (z * z) list -> gscan **)

let rec group_scan_parts ps acc =
  match ps with
  | [] -> GOk acc
  | p :: r ->
    (match get_offsets p with
     | Inl v -> group_scan_parts r (app acc (v :: []))
     | Inr c ->
       if Z.eqb c kC_GroupLoadInProgress
       then GRetry (c, false)
       else if Z.eqb c kC_NotCoordinatorForGroup
            then GRetry (c, true)
            else GFatal c)

(** val map_insert :
    (bytes * 'a1) list -> bytes -> 'a1 -> (bytes * 'a1) list **)

let rec map_insert m0 k v =
  match m0 with
  | [] -> (k, v) :: []
  | p :: r ->
    let (k', v') = p in
    if bytes_eqb k' k then (k', v) :: r else (k', v') :: (map_insert r k v)

(** val group_scan :
    (bytes * offset_fetch_part list) list -> (bytes * (z * z) list) list ->
    (((bytes * (z * z) list) list, z * bool) sum, z) sum **)

let rec group_scan tps m0 =
  match tps with
  | [] -> Inl (Inl m0)
  | p :: r ->
    let (t0, ps) = p in
    (match group_scan_parts ps [] with
     | GOk vs -> group_scan r (map_insert m0 t0 vs)
     | GRetry (c, reset) -> Inl (Inr (c, reset))
     | GFatal c -> Inr c)

(** val group_fetch_loop :
    nat -> bytes -> bytes res -> z -> (bytes * (z * z) list) list m **)

let rec group_fetch_loop fuel group req attempt =
  match fuel with
  | O -> fail EOutOfFuel
  | S f ->
    mbind (get_group_coordinator group) (fun h ->
      mbind (send_receive dec_offset_fetch_resp h req) (fun x ->
        let (_, tps) = x in
        (match group_scan tps [] with
         | Inl s ->
           (match s with
            | Inl m0 -> ret m0
            | Inr p ->
              let (code, reset) = p in
              mbind get_client (fun c ->
                mbind
                  (if reset
                   then set_cs (remove_group_coordinator c.cs group)
                   else ret ()) (fun _ ->
                  if Z.ltb attempt c.cfg.retry_max_attempts
                  then group_fetch_loop f group req (Z.add attempt (Zpos XH))
                  else fail (EKafka code))))
         | Inr c -> fail (EKafka c))))

(** val group_fetch_tps :
    cstate -> (bytes * z) list -> (bytes * z list) list -> (bytes * z list)
    list option **)

let rec group_fetch_tps s ps acc =
  match ps with
  | [] -> Some acc
  | p0 :: r ->
    let (t0, p) = p0 in
    if contains_topic_partition s t0 p
    then group_fetch_tps s r (tp_add acc t0 p)
    else None

(** val fetch_group_offsets :
    bytes -> (bytes * z) list -> (bytes * (z * z) list) list m **)

let fetch_group_offsets group ps =
  mbind get_client (fun c ->
    if Z.ltb c.cfg.offset_storage Z0
    then fail EUnsetOffsetStorage
    else mbind next_corr (fun corr ->
           match group_fetch_tps c.cs ps [] with
           | Some tps ->
             with_fuel (fun f ->
               group_fetch_loop f group
                 (enc_offset_fetch_req corr c.cfg.client_id group
                   (fetch_version c.cfg.offset_storage) tps) (Zpos XH))
           | None -> fail (EKafka kC_UnknownTopicOrPartition)))

(** val iota_z : nat -> z -> z list **)

let rec iota_z n0 from =
  match n0 with
  | O -> []
  | S k -> from :: (iota_z k (Z.add from (Zpos XH)))

(** val fetch_group_topic_offset : bytes -> bytes -> (z * z) list m **)

let fetch_group_topic_offset group topic =
  mbind get_client (fun c ->
    if Z.ltb c.cfg.offset_storage Z0
    then fail EUnsetOffsetStorage
    else mbind next_corr (fun corr ->
           match partitions_for c.cs topic with
           | Some ps ->
             let tps =
               fold_left (fun acc id -> tp_add acc topic id)
                 (iota_z (length ps) Z0) []
             in
             mbind
               (with_fuel (fun f ->
                 group_fetch_loop f group
                   (enc_offset_fetch_req corr c.cfg.client_id group
                     (fetch_version c.cfg.offset_storage) tps) (Zpos XH)))
               (fun m0 ->
               ret
                 (match assoc_bytes topic m0 with
                  | Some vs -> vs
                  | None -> []))
           | None -> fail (EKafka kC_UnknownTopicOrPartition)))

(** val m32 : z -> z **)

let m32 z0 =
  Z.modulo z0 (Zpos (XO (XO (XO (XO (XO (XO (XO (XO (XO (XO (XO (XO (XO (XO
    (XO (XO (XO (XO (XO (XO (XO (XO (XO (XO (XO (XO (XO (XO (XO (XO (XO (XO
    XH)))))))))))))))))))))))))))))))))

(** val p1 : z **)

let p1 =
  Zpos (XI (XO (XO (XO (XI (XI (XO (XI (XI (XO (XO (XI (XI (XI (XI (XO (XI
    (XI (XI (XO (XI (XI (XO (XO (XO (XI (XI (XI (XI (XO (XO
    XH)))))))))))))))))))))))))))))))

(** val p2 : z **)

let p2 =
  Zpos (XI (XI (XI (XO (XI (XI (XI (XO (XO (XI (XO (XI (XO (XO (XI (XI (XI
    (XI (XO (XI (XO (XI (XI (XI (XI (XO (XI (XO (XO (XO (XO
    XH)))))))))))))))))))))))))))))))

(** val p3 : z **)

let p3 =
  Zpos (XI (XO (XI (XI (XI (XI (XO (XO (XO (XI (XI (XI (XO (XI (XO (XI (XO
    (XI (XO (XO (XI (XI (XO (XI (XO (XI (XO (XO (XO (XO (XI
    XH)))))))))))))))))))))))))))))))

(** val p4 : z **)

let p4 =
  Zpos (XI (XI (XI (XI (XO (XI (XO (XO (XI (XI (XO (XI (XO (XI (XI (XI (XO
    (XO (XI (XO (XI (XO (XI (XI (XI (XI (XI (XO (XO
    XH)))))))))))))))))))))))))))))

(** val p5 : z **)

let p5 =
  Zpos (XI (XO (XO (XO (XI (XI (XO (XI (XI (XI (XI (XO (XO (XI (XI (XO (XO
    (XI (XI (XO (XI (XO (XI (XO (XO (XI (XI (XO XH))))))))))))))))))))))))))))

(** val rotl : z -> z -> z **)

let rotl x r =
  m32
    (Z.coq_lor (Z.shiftl x r)
      (Z.shiftr x (Z.sub (Zpos (XO (XO (XO (XO (XO XH)))))) r)))

(** val le32 : byte -> byte -> byte -> byte -> z **)

let le32 b0 b1 b2 b3 =
  Z.add
    (Z.add
      (Z.add (zb b0)
        (Z.mul (Zpos (XO (XO (XO (XO (XO (XO (XO (XO XH))))))))) (zb b1)))
      (Z.mul (Zpos (XO (XO (XO (XO (XO (XO (XO (XO (XO (XO (XO (XO (XO (XO
        (XO (XO XH))))))))))))))))) (zb b2)))
    (Z.mul (Zpos (XO (XO (XO (XO (XO (XO (XO (XO (XO (XO (XO (XO (XO (XO (XO
      (XO (XO (XO (XO (XO (XO (XO (XO (XO XH))))))))))))))))))))))))) 
      (zb b3))

(** val round : z -> z -> z **)

let round acc input =
  m32
    (Z.mul (rotl (m32 (Z.add acc (Z.mul input p2))) (Zpos (XI (XO (XI XH)))))
      p1)

(** val stripes :
    nat -> bytes -> (((z * z) * z) * z) -> (((z * z) * z) * z) * bytes **)

let rec stripes fuel bs v =
  match fuel with
  | O -> (v, bs)
  | S f ->
    (match bs with
     | [] -> (v, bs)
     | a0 :: l ->
       (match l with
        | [] -> (v, bs)
        | a1 :: l0 ->
          (match l0 with
           | [] -> (v, bs)
           | a2 :: l1 ->
             (match l1 with
              | [] -> (v, bs)
              | a3 :: l2 ->
                (match l2 with
                 | [] -> (v, bs)
                 | b0 :: l3 ->
                   (match l3 with
                    | [] -> (v, bs)
                    | b1 :: l4 ->
                      (match l4 with
                       | [] -> (v, bs)
                       | b2 :: l5 ->
                         (match l5 with
                          | [] -> (v, bs)
                          | b3 :: l6 ->
                            (match l6 with
                             | [] -> (v, bs)
                             | c0 :: l7 ->
                               (match l7 with
                                | [] -> (v, bs)
                                | c1 :: l8 ->
                                  (match l8 with
                                   | [] -> (v, bs)
                                   | c2 :: l9 ->
                                     (match l9 with
                                      | [] -> (v, bs)
                                      | c3 :: l10 ->
                                        (match l10 with
                                         | [] -> (v, bs)
                                         | d0 :: l11 ->
                                           (match l11 with
                                            | [] -> (v, bs)
                                            | d1 :: l12 ->
                                              (match l12 with
                                               | [] -> (v, bs)
                                               | d2 :: l13 ->
                                                 (match l13 with
                                                  | [] -> (v, bs)
                                                  | d3 :: r ->
                                                    let (p, v4) = v in
                                                    let (p0, v3) = p in
                                                    let (v1, v2) = p0 in
                                                    stripes f r
                                                      ((((round v1
                                                           (le32 a0 a1 a2 a3)),
                                                      (round v2
                                                        (le32 b0 b1 b2 b3))),
                                                      (round v3
                                                        (le32 c0 c1 c2 c3))),
                                                      (round v4
                                                        (le32 d0 d1 d2 d3)))))))))))))))))))

(** val tail4 : nat -> bytes -> z -> z * bytes **)

let rec tail4 fuel bs h =
  match fuel with
  | O -> (h, bs)
  | S f ->
    (match bs with
     | [] -> (h, bs)
     | b0 :: l ->
       (match l with
        | [] -> (h, bs)
        | b1 :: l0 ->
          (match l0 with
           | [] -> (h, bs)
           | b2 :: l1 ->
             (match l1 with
              | [] -> (h, bs)
              | b3 :: r ->
                tail4 f r
                  (m32
                    (Z.mul
                      (rotl (m32 (Z.add h (Z.mul (le32 b0 b1 b2 b3) p3)))
                        (Zpos (XI (XO (XO (XO XH)))))) p4))))))

(** val tail1 : bytes -> z -> z **)

let rec tail1 bs h =
  match bs with
  | [] -> h
  | b :: r ->
    tail1 r
      (m32
        (Z.mul
          (rotl (m32 (Z.add h (Z.mul (zb b) p5))) (Zpos (XI (XI (XO XH)))))
          p1))

(** val avalanche : z -> z **)

let avalanche h =
  let h0 = Z.coq_lxor h (Z.shiftr h (Zpos (XI (XI (XI XH))))) in
  let h1 = m32 (Z.mul h0 p2) in
  let h2 = Z.coq_lxor h1 (Z.shiftr h1 (Zpos (XI (XO (XI XH))))) in
  let h3 = m32 (Z.mul h2 p3) in
  Z.coq_lxor h3 (Z.shiftr h3 (Zpos (XO (XO (XO (XO XH))))))

(** val xxh32 : z -> bytes -> z **)

let xxh32 seed bs =
  let n0 = length bs in
  if Nat.leb (S (S (S (S (S (S (S (S (S (S (S (S (S (S (S (S
       O)))))))))))))))) n0
  then let (p, rest) =
         stripes n0 bs ((((m32 (Z.add (Z.add seed p1) p2)),
           (m32 (Z.add seed p2))), (m32 seed)), (m32 (Z.sub seed p1)))
       in
       let (p0, v4) = p in
       let (p6, v3) = p0 in
       let (v1, v2) = p6 in
       let h =
         m32
           (Z.add
             (Z.add (Z.add (rotl v1 (Zpos XH)) (rotl v2 (Zpos (XI (XI XH)))))
               (rotl v3 (Zpos (XO (XO (XI XH))))))
             (rotl v4 (Zpos (XO (XI (XO (XO XH)))))))
       in
       let h0 = m32 (Z.add h (Z.of_nat n0)) in
       let (h1, rest0) = tail4 n0 rest h0 in avalanche (tail1 rest0 h1)
  else let h = m32 (Z.add seed p5) in
       let h0 = m32 (Z.add h (Z.of_nat n0)) in
       let (h1, rest) = tail4 n0 bs h0 in avalanche (tail1 rest h1)

type record = { r_topic : bytes; r_partition : z; r_key : bytes;
                r_value : bytes }

type pparts = { available_ids : z list; num_all : z }

type producer = { p_client : client; p_parts : (bytes * pparts) list;
                  p_cntr : z; p_ack_timeout : z; p_acks : z }

(** val producer_with_client : producer -> client -> producer **)

let producer_with_client p c =
  { p_client = c; p_parts = p.p_parts; p_cntr = p.p_cntr; p_ack_timeout =
    p.p_ack_timeout; p_acks = p.p_acks }

(** val producer_set_cntr : producer -> z -> producer **)

let producer_set_cntr p n0 =
  { p_client = p.p_client; p_parts = p.p_parts; p_cntr = n0; p_ack_timeout =
    p.p_ack_timeout; p_acks = p.p_acks }

(** val to_option : bytes -> bytes option **)

let to_option b = match b with
| [] -> None
| _ :: _ -> Some b

(** val partition :
    (bytes * pparts) list -> z -> bytes -> z -> bytes option -> z * z **)

let partition parts cntr topic p key =
  if Z.leb Z0 p
  then (p, cntr)
  else (match assoc_bytes topic parts with
        | Some ps ->
          (match key with
           | Some k ->
             if Z.eqb ps.num_all Z0
             then (p, cntr)
             else ((wrap_s (Zpos (XO (XO (XO (XO (XO XH))))))
                     (Z.modulo (xxh32 Z0 k) ps.num_all)), cntr)
           | None ->
             (match ps.available_ids with
              | [] -> (p, cntr)
              | a :: av ->
                ((nth (Z.to_nat (Z.modulo cntr (ulen av))) av a),
                  (Z.modulo (Z.add cntr (Zpos XH)) (Zpos (XO (XO (XO (XO (XO
                    (XO (XO (XO (XO (XO (XO (XO (XO (XO (XO (XO (XO (XO (XO
                    (XO (XO (XO (XO (XO (XO (XO (XO (XO (XO (XO (XO (XO
                    XH)))))))))))))))))))))))))))))))))))))
        | None -> (p, cntr))

(** val producer_state : cstate -> (bytes * pparts) list **)

let producer_state s =
  map (fun pat ->
    let (t0, ps) = pat in
    (t0, { available_ids = (map fst (leaders_from s ps Z0)); num_all =
    (ulen ps) })) s.topic_partitions

(** val send_all_reqs :
    cstate -> (bytes * pparts) list -> z -> record list ->
    (bytes * produce_tps) list -> (bytes * produce_tps) list option * z **)

let rec send_all_reqs s parts cntr recs reqs =
  match recs with
  | [] -> ((Some reqs), cntr)
  | r :: rest ->
    let key = to_option r.r_key in
    let (p, cntr') = partition parts cntr r.r_topic r.r_partition key in
    (match find_broker s r.r_topic p with
     | Some host ->
       send_all_reqs s parts cntr' rest
         (phost_add reqs host r.r_topic p (key, (to_option r.r_value)))
     | None -> (None, cntr'))

(** val producer_send_all :
    producer -> record list -> (confirm list * producer) m **)

let producer_send_all p recs =
  mbind next_corr (fun corr ->
    mbind get_client (fun c ->
      let (oreqs, cntr') = send_all_reqs c.cs p.p_parts p.p_cntr recs [] in
      let p' = producer_set_cntr p cntr' in
      (match oreqs with
       | Some reqs ->
         mbind (ordered reqs) (fun reqs' ->
           mbind (produce_exchange corr p.p_acks p.p_ack_timeout reqs' [])
             (fun cf -> ret (cf, p')))
       | None -> (fun s -> ((Err (EKafka kC_UnknownTopicOrPartition)), s)))))

(** val cntr_after : producer -> client -> record list -> z **)

let cntr_after p c recs =
  snd (send_all_reqs c.cs p.p_parts p.p_cntr recs [])

(** val producer_send : producer -> record -> producer m **)

let producer_send p r =
  mbind (producer_send_all p (r :: [])) (fun x ->
    let (cf, p') = x in
    if Z.eqb p.p_acks Z0
    then ret p'
    else (match cf with
          | [] ->
            mpanic
              (tag (String ((Ascii (true, false, false, false, false, true,
                true, false)), (String ((Ascii (true, true, false, false,
                true, true, true, false)), (String ((Ascii (true, true,
                false, false, true, true, true, false)), (String ((Ascii
                (true, false, true, false, false, true, true, false)),
                (String ((Ascii (false, true, false, false, true, true, true,
                false)), (String ((Ascii (false, false, true, false, true,
                true, true, false)), (String ((Ascii (true, false, false,
                true, false, true, true, false)), (String ((Ascii (true,
                true, true, true, false, true, true, false)), (String ((Ascii
                (false, true, true, true, false, true, true, false)), (String
                ((Ascii (false, false, false, false, false, true, false,
                false)), (String ((Ascii (false, true, true, false, false,
                true, true, false)), (String ((Ascii (true, false, false,
                false, false, true, true, false)), (String ((Ascii (true,
                false, false, true, false, true, true, false)), (String
                ((Ascii (false, false, true, true, false, true, true,
                false)), (String ((Ascii (true, false, true, false, false,
                true, true, false)), (String ((Ascii (false, false, true,
                false, false, true, true, false)), (String ((Ascii (false,
                true, false, true, true, true, false, false)), (String
                ((Ascii (false, false, false, false, false, true, false,
                false)), (String ((Ascii (false, true, false, false, true,
                true, true, false)), (String ((Ascii (true, true, false,
                false, true, true, true, false)), (String ((Ascii (false,
                true, true, true, false, true, false, false)), (String
                ((Ascii (false, false, true, true, false, true, true,
                false)), (String ((Ascii (true, false, true, false, false,
                true, true, false)), (String ((Ascii (false, true, true,
                true, false, true, true, false)), (String ((Ascii (false,
                false, false, true, false, true, false, false)), (String
                ((Ascii (true, false, false, true, false, true, false,
                false)), (String ((Ascii (false, false, false, false, false,
                true, false, false)), (String ((Ascii (true, false, true,
                true, true, true, false, false)), (String ((Ascii (true,
                false, true, true, true, true, false, false)), (String
                ((Ascii (false, false, false, false, false, true, false,
                false)), (String ((Ascii (true, false, false, false, true,
                true, false, false)),
                EmptyString)))))))))))))))))))))))))))))))))))))))))))))))))))))))))))))))
          | c :: l ->
            let (_, pcs) = c in
            (match l with
             | [] ->
               (match pcs with
                | [] ->
                  mpanic
                    (tag (String ((Ascii (true, false, false, false, false,
                      true, true, false)), (String ((Ascii (true, true,
                      false, false, true, true, true, false)), (String
                      ((Ascii (true, true, false, false, true, true, true,
                      false)), (String ((Ascii (true, false, true, false,
                      false, true, true, false)), (String ((Ascii (false,
                      true, false, false, true, true, true, false)), (String
                      ((Ascii (false, false, true, false, true, true, true,
                      false)), (String ((Ascii (true, false, false, true,
                      false, true, true, false)), (String ((Ascii (true,
                      true, true, true, false, true, true, false)), (String
                      ((Ascii (false, true, true, true, false, true, true,
                      false)), (String ((Ascii (false, false, false, false,
                      false, true, false, false)), (String ((Ascii (false,
                      true, true, false, false, true, true, false)), (String
                      ((Ascii (true, false, false, false, false, true, true,
                      false)), (String ((Ascii (true, false, false, true,
                      false, true, true, false)), (String ((Ascii (false,
                      false, true, true, false, true, true, false)), (String
                      ((Ascii (true, false, true, false, false, true, true,
                      false)), (String ((Ascii (false, false, true, false,
                      false, true, true, false)), (String ((Ascii (false,
                      true, false, true, true, true, false, false)), (String
                      ((Ascii (false, false, false, false, false, true,
                      false, false)), (String ((Ascii (false, false, false,
                      false, true, true, true, false)), (String ((Ascii
                      (true, false, false, false, false, true, true, false)),
                      (String ((Ascii (false, true, false, false, true, true,
                      true, false)), (String ((Ascii (false, false, true,
                      false, true, true, true, false)), (String ((Ascii
                      (true, false, false, true, false, true, true, false)),
                      (String ((Ascii (false, false, true, false, true, true,
                      true, false)), (String ((Ascii (true, false, false,
                      true, false, true, true, false)), (String ((Ascii
                      (true, true, true, true, false, true, true, false)),
                      (String ((Ascii (false, true, true, true, false, true,
                      true, false)), (String ((Ascii (true, true, true, true,
                      true, false, true, false)), (String ((Ascii (true,
                      true, false, false, false, true, true, false)), (String
                      ((Ascii (true, true, true, true, false, true, true,
                      false)), (String ((Ascii (false, true, true, true,
                      false, true, true, false)), (String ((Ascii (false,
                      true, true, false, false, true, true, false)), (String
                      ((Ascii (true, false, false, true, false, true, true,
                      false)), (String ((Ascii (false, true, false, false,
                      true, true, true, false)), (String ((Ascii (true,
                      false, true, true, false, true, true, false)), (String
                      ((Ascii (true, true, false, false, true, true, true,
                      false)), (String ((Ascii (false, true, true, true,
                      false, true, false, false)), (String ((Ascii (false,
                      false, true, true, false, true, true, false)), (String
                      ((Ascii (true, false, true, false, false, true, true,
                      false)), (String ((Ascii (false, true, true, true,
                      false, true, true, false)), (String ((Ascii (false,
                      false, false, true, false, true, false, false)),
                      (String ((Ascii (true, false, false, true, false, true,
                      false, false)), (String ((Ascii (false, false, false,
                      false, false, true, false, false)), (String ((Ascii
                      (true, false, true, true, true, true, false, false)),
                      (String ((Ascii (true, false, true, true, true, true,
                      false, false)), (String ((Ascii (false, false, false,
                      false, false, true, false, false)), (String ((Ascii
                      (true, false, false, false, true, true, false, false)),
                      EmptyString)))))))))))))))))))))))))))))))))))))))))))))))))))))))))))))))))))))))))))))))))))))))))))))))
                | p0 :: l0 ->
                  let (_, s) = p0 in
                  (match s with
                   | Inl _ ->
                     (match l0 with
                      | [] -> ret p'
                      | _ :: _ ->
                        mpanic
                          (tag (String ((Ascii (true, false, false, false,
                            false, true, true, false)), (String ((Ascii
                            (true, true, false, false, true, true, true,
                            false)), (String ((Ascii (true, true, false,
                            false, true, true, true, false)), (String ((Ascii
                            (true, false, true, false, false, true, true,
                            false)), (String ((Ascii (false, true, false,
                            false, true, true, true, false)), (String ((Ascii
                            (false, false, true, false, true, true, true,
                            false)), (String ((Ascii (true, false, false,
                            true, false, true, true, false)), (String ((Ascii
                            (true, true, true, true, false, true, true,
                            false)), (String ((Ascii (false, true, true,
                            true, false, true, true, false)), (String ((Ascii
                            (false, false, false, false, false, true, false,
                            false)), (String ((Ascii (false, true, true,
                            false, false, true, true, false)), (String
                            ((Ascii (true, false, false, false, false, true,
                            true, false)), (String ((Ascii (true, false,
                            false, true, false, true, true, false)), (String
                            ((Ascii (false, false, true, true, false, true,
                            true, false)), (String ((Ascii (true, false,
                            true, false, false, true, true, false)), (String
                            ((Ascii (false, false, true, false, false, true,
                            true, false)), (String ((Ascii (false, true,
                            false, true, true, true, false, false)), (String
                            ((Ascii (false, false, false, false, false, true,
                            false, false)), (String ((Ascii (false, false,
                            false, false, true, true, true, false)), (String
                            ((Ascii (true, false, false, false, false, true,
                            true, false)), (String ((Ascii (false, true,
                            false, false, true, true, true, false)), (String
                            ((Ascii (false, false, true, false, true, true,
                            true, false)), (String ((Ascii (true, false,
                            false, true, false, true, true, false)), (String
                            ((Ascii (false, false, true, false, true, true,
                            true, false)), (String ((Ascii (true, false,
                            false, true, false, true, true, false)), (String
                            ((Ascii (true, true, true, true, false, true,
                            true, false)), (String ((Ascii (false, true,
                            true, true, false, true, true, false)), (String
                            ((Ascii (true, true, true, true, true, false,
                            true, false)), (String ((Ascii (true, true,
                            false, false, false, true, true, false)), (String
                            ((Ascii (true, true, true, true, false, true,
                            true, false)), (String ((Ascii (false, true,
                            true, true, false, true, true, false)), (String
                            ((Ascii (false, true, true, false, false, true,
                            true, false)), (String ((Ascii (true, false,
                            false, true, false, true, true, false)), (String
                            ((Ascii (false, true, false, false, true, true,
                            true, false)), (String ((Ascii (true, false,
                            true, true, false, true, true, false)), (String
                            ((Ascii (true, true, false, false, true, true,
                            true, false)), (String ((Ascii (false, true,
                            true, true, false, true, false, false)), (String
                            ((Ascii (false, false, true, true, false, true,
                            true, false)), (String ((Ascii (true, false,
                            true, false, false, true, true, false)), (String
                            ((Ascii (false, true, true, true, false, true,
                            true, false)), (String ((Ascii (false, false,
                            false, true, false, true, false, false)), (String
                            ((Ascii (true, false, false, true, false, true,
                            false, false)), (String ((Ascii (false, false,
                            false, false, false, true, false, false)),
                            (String ((Ascii (true, false, true, true, true,
                            true, false, false)), (String ((Ascii (true,
                            false, true, true, true, true, false, false)),
                            (String ((Ascii (false, false, false, false,
                            false, true, false, false)), (String ((Ascii
                            (true, false, false, false, true, true, false,
                            false)),
                            EmptyString))))))))))))))))))))))))))))))))))))))))))))))))))))))))))))))))))))))))))))))))))))))))))))))))
                   | Inr code ->
                     (match l0 with
                      | [] -> fail (EKafka code)
                      | _ :: _ ->
                        mpanic
                          (tag (String ((Ascii (true, false, false, false,
                            false, true, true, false)), (String ((Ascii
                            (true, true, false, false, true, true, true,
                            false)), (String ((Ascii (true, true, false,
                            false, true, true, true, false)), (String ((Ascii
                            (true, false, true, false, false, true, true,
                            false)), (String ((Ascii (false, true, false,
                            false, true, true, true, false)), (String ((Ascii
                            (false, false, true, false, true, true, true,
                            false)), (String ((Ascii (true, false, false,
                            true, false, true, true, false)), (String ((Ascii
                            (true, true, true, true, false, true, true,
                            false)), (String ((Ascii (false, true, true,
                            true, false, true, true, false)), (String ((Ascii
                            (false, false, false, false, false, true, false,
                            false)), (String ((Ascii (false, true, true,
                            false, false, true, true, false)), (String
                            ((Ascii (true, false, false, false, false, true,
                            true, false)), (String ((Ascii (true, false,
                            false, true, false, true, true, false)), (String
                            ((Ascii (false, false, true, true, false, true,
                            true, false)), (String ((Ascii (true, false,
                            true, false, false, true, true, false)), (String
                            ((Ascii (false, false, true, false, false, true,
                            true, false)), (String ((Ascii (false, true,
                            false, true, true, true, false, false)), (String
                            ((Ascii (false, false, false, false, false, true,
                            false, false)), (String ((Ascii (false, false,
                            false, false, true, true, true, false)), (String
                            ((Ascii (true, false, false, false, false, true,
                            true, false)), (String ((Ascii (false, true,
                            false, false, true, true, true, false)), (String
                            ((Ascii (false, false, true, false, true, true,
                            true, false)), (String ((Ascii (true, false,
                            false, true, false, true, true, false)), (String
                            ((Ascii (false, false, true, false, true, true,
                            true, false)), (String ((Ascii (true, false,
                            false, true, false, true, true, false)), (String
                            ((Ascii (true, true, true, true, false, true,
                            true, false)), (String ((Ascii (false, true,
                            true, true, false, true, true, false)), (String
                            ((Ascii (true, true, true, true, true, false,
                            true, false)), (String ((Ascii (true, true,
                            false, false, false, true, true, false)), (String
                            ((Ascii (true, true, true, true, false, true,
                            true, false)), (String ((Ascii (false, true,
                            true, true, false, true, true, false)), (String
                            ((Ascii (false, true, true, false, false, true,
                            true, false)), (String ((Ascii (true, false,
                            false, true, false, true, true, false)), (String
                            ((Ascii (false, true, false, false, true, true,
                            true, false)), (String ((Ascii (true, false,
                            true, true, false, true, true, false)), (String
                            ((Ascii (true, true, false, false, true, true,
                            true, false)), (String ((Ascii (false, true,
                            true, true, false, true, false, false)), (String
                            ((Ascii (false, false, true, true, false, true,
                            true, false)), (String ((Ascii (true, false,
                            true, false, false, true, true, false)), (String
                            ((Ascii (false, true, true, true, false, true,
                            true, false)), (String ((Ascii (false, false,
                            false, true, false, true, false, false)), (String
                            ((Ascii (true, false, false, true, false, true,
                            false, false)), (String ((Ascii (false, false,
                            false, false, false, true, false, false)),
                            (String ((Ascii (true, false, true, true, true,
                            true, false, false)), (String ((Ascii (true,
                            false, true, true, true, true, false, false)),
                            (String ((Ascii (false, false, false, false,
                            false, true, false, false)), (String ((Ascii
                            (true, false, false, false, true, true, false,
                            false)),
                            EmptyString))))))))))))))))))))))))))))))))))))))))))))))))))))))))))))))))))))))))))))))))))))))))))))))))))
             | _ :: _ ->
               mpanic
                 (tag (String ((Ascii (true, false, false, false, false,
                   true, true, false)), (String ((Ascii (true, true, false,
                   false, true, true, true, false)), (String ((Ascii (true,
                   true, false, false, true, true, true, false)), (String
                   ((Ascii (true, false, true, false, false, true, true,
                   false)), (String ((Ascii (false, true, false, false, true,
                   true, true, false)), (String ((Ascii (false, false, true,
                   false, true, true, true, false)), (String ((Ascii (true,
                   false, false, true, false, true, true, false)), (String
                   ((Ascii (true, true, true, true, false, true, true,
                   false)), (String ((Ascii (false, true, true, true, false,
                   true, true, false)), (String ((Ascii (false, false, false,
                   false, false, true, false, false)), (String ((Ascii
                   (false, true, true, false, false, true, true, false)),
                   (String ((Ascii (true, false, false, false, false, true,
                   true, false)), (String ((Ascii (true, false, false, true,
                   false, true, true, false)), (String ((Ascii (false, false,
                   true, true, false, true, true, false)), (String ((Ascii
                   (true, false, true, false, false, true, true, false)),
                   (String ((Ascii (false, false, true, false, false, true,
                   true, false)), (String ((Ascii (false, true, false, true,
                   true, true, false, false)), (String ((Ascii (false, false,
                   false, false, false, true, false, false)), (String ((Ascii
                   (false, true, false, false, true, true, true, false)),
                   (String ((Ascii (true, true, false, false, true, true,
                   true, false)), (String ((Ascii (false, true, true, true,
                   false, true, false, false)), (String ((Ascii (false,
                   false, true, true, false, true, true, false)), (String
                   ((Ascii (true, false, true, false, false, true, true,
                   false)), (String ((Ascii (false, true, true, true, false,
                   true, true, false)), (String ((Ascii (false, false, false,
                   true, false, true, false, false)), (String ((Ascii (true,
                   false, false, true, false, true, false, false)), (String
                   ((Ascii (false, false, false, false, false, true, false,
                   false)), (String ((Ascii (true, false, true, true, true,
                   true, false, false)), (String ((Ascii (true, false, true,
                   true, true, true, false, false)), (String ((Ascii (false,
                   false, false, false, false, true, false, false)), (String
                   ((Ascii (true, false, false, false, true, true, false,
                   false)),
                   EmptyString))))))))))))))))))))))))))))))))))))))))))))))))))))))))))))))))))

type pbuilder_call =
| PWithCompression of z
| PWithAckTimeout of (z * z)
| PWithIdle of (z * z)
| PWithAcks of z
| PWithClientId of bytes
| PWithPartitioner

type pbuilder = { pb_compression : z; pb_ack_timeout : (z * z);
                  pb_idle : (z * z); pb_acks : z; pb_client_id : bytes option }

(** val millis_dur : z -> z * z **)

let millis_dur m0 =
  ((Z.div m0 (Zpos (XO (XO (XO (XI (XO (XI (XI (XI (XI XH))))))))))),
    (Z.mul
      (Z.modulo m0 (Zpos (XO (XO (XO (XI (XO (XI (XI (XI (XI XH)))))))))))
      (Zpos (XO (XO (XO (XO (XO (XO (XI (XO (XO (XI (XO (XO (XO (XO (XI (XO
      (XI (XI (XI XH))))))))))))))))))))))

(** val pbuilder_new : (bytes list, client) sum -> pbuilder **)

let pbuilder_new src =
  { pb_compression =
    (match src with
     | Inl _ -> dEFAULT_COMPRESSION
     | Inr c -> c.cfg.compression); pb_ack_timeout =
    (millis_dur dEFAULT_ACK_TIMEOUT_MILLIS); pb_idle =
    (match src with
     | Inl _ -> millis_dur dEFAULT_CONNECTION_IDLE_TIMEOUT_MILLIS
     | Inr c -> c.cfg.idle_timeout); pb_acks = dEFAULT_REQUIRED_ACKS;
    pb_client_id = None }

(** val pbuilder_apply : pbuilder -> pbuilder_call -> pbuilder **)

let pbuilder_apply b = function
| PWithCompression x ->
  { pb_compression = x; pb_ack_timeout = b.pb_ack_timeout; pb_idle =
    b.pb_idle; pb_acks = b.pb_acks; pb_client_id = b.pb_client_id }
| PWithAckTimeout d ->
  { pb_compression = b.pb_compression; pb_ack_timeout = d; pb_idle =
    b.pb_idle; pb_acks = b.pb_acks; pb_client_id = b.pb_client_id }
| PWithIdle d ->
  { pb_compression = b.pb_compression; pb_ack_timeout = b.pb_ack_timeout;
    pb_idle = d; pb_acks = b.pb_acks; pb_client_id = b.pb_client_id }
| PWithAcks a ->
  { pb_compression = b.pb_compression; pb_ack_timeout = b.pb_ack_timeout;
    pb_idle = b.pb_idle; pb_acks = a; pb_client_id = b.pb_client_id }
| PWithClientId id ->
  { pb_compression = b.pb_compression; pb_ack_timeout = b.pb_ack_timeout;
    pb_idle = b.pb_idle; pb_acks = b.pb_acks; pb_client_id = (Some id) }
| PWithPartitioner -> b

(** val cfg_set_producer : config -> pbuilder -> config **)

let cfg_set_producer g b =
  { client_id =
    (match b.pb_client_id with
     | Some id -> id
     | None -> g.client_id); hosts = g.hosts; compression = b.pb_compression;
    fetch_max_wait_time = g.fetch_max_wait_time; fetch_min_bytes =
    g.fetch_min_bytes; fetch_max_bytes_per_partition =
    g.fetch_max_bytes_per_partition; fetch_crc_validation =
    g.fetch_crc_validation; offset_storage = g.offset_storage;
    retry_backoff_time = g.retry_backoff_time; retry_max_attempts =
    g.retry_max_attempts; idle_timeout = b.pb_idle }

(** val producer_create :
    (bytes list, client) sum -> pbuilder_call list -> producer m **)

let producer_create src calls =
  let b = fold_left pbuilder_apply calls (pbuilder_new src) in
  mbind get_client (fun c ->
    mbind
      (set_client { cfg = (cfg_set_producer c.cfg b); cs = c.cs; conns =
        c.conns }) (fun _ ->
      mbind (lift (to_millis_i32 b.pb_ack_timeout)) (fun t0 ->
        mbind (match src with
               | Inl _ -> load_metadata_all
               | Inr _ -> ret ()) (fun _ ->
          mbind get_client (fun c' ->
            ret { p_client = c'; p_parts = (producer_state c'.cs); p_cntr =
              Z0; p_ack_timeout = t0; p_acks = b.pb_acks })))))

type fallback =
| FbEarliest
| FbLatest
| FbByTime of z

(** val fallback_time : fallback -> z **)

let fallback_time = function
| FbEarliest -> fETCH_OFFSET_EARLIEST
| FbLatest -> fETCH_OFFSET_LATEST
| FbByTime t0 -> t0

type tpkey = z * z

(** val tpkey_eqb : tpkey -> tpkey -> bool **)

let tpkey_eqb a b =
  (&&) (Z.eqb (fst a) (fst b)) (Z.eqb (snd a) (snd b))

type consumer = { k_client : client; k_group : bytes; k_fallback : fallback;
                  k_retry_limit : z; k_assign : (bytes * z list) list;
                  k_fetch : (tpkey * (z * z)) list; k_retry : tpkey list;
                  k_consumed : (tpkey * (z * bool)) list }

(** val consumer_with_client : consumer -> client -> consumer **)

let consumer_with_client k c =
  { k_client = c; k_group = k.k_group; k_fallback = k.k_fallback;
    k_retry_limit = k.k_retry_limit; k_assign = k.k_assign; k_fetch =
    k.k_fetch; k_retry = k.k_retry; k_consumed = k.k_consumed }

(** val consumer_with :
    consumer -> (tpkey * (z * z)) list -> tpkey list -> (tpkey * (z * bool))
    list -> consumer **)

let consumer_with k fetch retry consumed =
  { k_client = k.k_client; k_group = k.k_group; k_fallback = k.k_fallback;
    k_retry_limit = k.k_retry_limit; k_assign = k.k_assign; k_fetch = fetch;
    k_retry = retry; k_consumed = consumed }

(** val insert_z : z -> z list -> z list **)

let rec insert_z x l = match l with
| [] -> x :: []
| y :: r ->
  if Z.ltb x y then x :: l else if Z.eqb x y then l else y :: (insert_z x r)

(** val sort_dedup : z list -> z list **)

let sort_dedup l =
  fold_left (fun acc x -> insert_z x acc) l []

(** val insert_topic :
    (bytes * 'a1) -> (bytes * 'a1) list -> (bytes * 'a1) list **)

let rec insert_topic x l = match l with
| [] -> x :: []
| y :: r ->
  if bytes_ltb (fst x) (fst y) then x :: l else y :: (insert_topic x r)

(** val from_map : (bytes * z list) list -> (bytes * z list) list **)

let from_map m0 =
  fold_left (fun acc pat ->
    let (t0, ps) = pat in insert_topic (t0, (sort_dedup ps)) acc) m0 []

(** val bsearch : nat -> (bytes * 'a1) list -> bytes -> z -> z -> z option **)

let rec bsearch fuel tbl key lo hi =
  match fuel with
  | O -> None
  | S f ->
    if Z.leb hi lo
    then None
    else let mid = Z.add lo (Z.div (Z.sub hi lo) (Zpos (XO XH))) in
         (match nth_z tbl mid with
          | Some p ->
            let (t0, _) = p in
            (match bytes_cmp t0 key with
             | Eq -> Some mid
             | Lt -> bsearch f tbl key (Z.add mid (Zpos XH)) hi
             | Gt -> bsearch f tbl key lo mid)
          | None -> None)

(** val topic_ref : (bytes * 'a1) list -> bytes -> z option **)

let topic_ref tbl key =
  bsearch (S (length tbl)) tbl key Z0 (ulen tbl)

(** val topic_name : consumer -> z -> bytes **)

let topic_name k r =
  match nth_z k.k_assign r with
  | Some p -> let (t0, _) = p in t0
  | None -> []

(** val tk_get : tpkey -> (tpkey * 'a1) list -> 'a1 option **)

let rec tk_get key = function
| [] -> None
| p :: r ->
  let (k', v) = p in if tpkey_eqb k' key then Some v else tk_get key r

(** val tk_set : tpkey -> 'a1 -> (tpkey * 'a1) list -> (tpkey * 'a1) list **)

let rec tk_set key v = function
| [] -> (key, v) :: []
| p :: r ->
  let (k', v') = p in
  if tpkey_eqb k' key then (k', v) :: r else (k', v') :: (tk_set key v r)

type cbuilder_call =
| CWithGroup of bytes
| CWithTopic of bytes
| CWithTopicPartitions of bytes * z list
| CWithFallback of fallback
| CWithMaxWait of (z * z)
| CWithMinBytes of z
| CWithMaxBytes of z
| CWithCrc of bool
| CWithStorage of z
| CWithRetryLimit of z
| CWithIdle of (z * z)
| CWithClientId of bytes

type cbuilder = { cb_group : bytes; cb_assign : (bytes * z list) list;
                  cb_fallback : fallback; cb_max_wait : (z * z);
                  cb_min_bytes : z; cb_max_bytes : z; cb_retry_limit : 
                  z; cb_crc : bool; cb_storage : z; cb_idle : (z * z);
                  cb_client_id : bytes option }

(** val millis_dur0 : z -> z * z **)

let millis_dur0 m0 =
  ((Z.div m0 (Zpos (XO (XO (XO (XI (XO (XI (XI (XI (XI XH))))))))))),
    (Z.mul
      (Z.modulo m0 (Zpos (XO (XO (XO (XI (XO (XI (XI (XI (XI XH)))))))))))
      (Zpos (XO (XO (XO (XO (XO (XO (XI (XO (XO (XI (XO (XO (XO (XO (XI (XO
      (XI (XI (XI XH))))))))))))))))))))))

(** val default_fallback : fallback **)

let default_fallback =
  if Z.eqb dEFAULT_FALLBACK_OFFSET fETCH_OFFSET_EARLIEST
  then FbEarliest
  else FbLatest

(** val cbuilder_new : (bytes list, client) sum -> cbuilder **)

let cbuilder_new = function
| Inl _ ->
  { cb_group = []; cb_assign = []; cb_fallback = default_fallback;
    cb_max_wait = (millis_dur0 dEFAULT_FETCH_MAX_WAIT_TIME_MILLIS);
    cb_min_bytes = dEFAULT_FETCH_MIN_BYTES; cb_max_bytes =
    dEFAULT_FETCH_MAX_BYTES_PER_PARTITION; cb_retry_limit =
    dEFAULT_RETRY_MAX_BYTES_LIMIT; cb_crc = dEFAULT_FETCH_CRC_VALIDATION;
    cb_storage = (Zneg XH); cb_idle =
    (millis_dur0 dEFAULT_CONNECTION_IDLE_TIMEOUT_MILLIS); cb_client_id =
    None }
| Inr c ->
  { cb_group = []; cb_assign = []; cb_fallback = default_fallback;
    cb_max_wait = (millis_dur0 c.cfg.fetch_max_wait_time); cb_min_bytes =
    c.cfg.fetch_min_bytes; cb_max_bytes =
    c.cfg.fetch_max_bytes_per_partition; cb_retry_limit =
    dEFAULT_RETRY_MAX_BYTES_LIMIT; cb_crc = c.cfg.fetch_crc_validation;
    cb_storage = c.cfg.offset_storage; cb_idle = c.cfg.idle_timeout;
    cb_client_id = None }

(** val cb_upd :
    cbuilder -> bytes -> (bytes * z list) list -> fallback -> (z * z) -> z ->
    z -> z -> bool -> z -> (z * z) -> bytes option -> cbuilder **)

let cb_upd _ g a f w mn mx rl crc st0 idl cid =
  { cb_group = g; cb_assign = a; cb_fallback = f; cb_max_wait = w;
    cb_min_bytes = mn; cb_max_bytes = mx; cb_retry_limit = rl; cb_crc = crc;
    cb_storage = st0; cb_idle = idl; cb_client_id = cid }

(** val cbuilder_apply : cbuilder -> cbuilder_call -> cbuilder **)

let cbuilder_apply b c =
  let p = (((((((((b.cb_group, b.cb_assign), b.cb_fallback), b.cb_max_wait),
    b.cb_min_bytes), b.cb_max_bytes), b.cb_retry_limit), b.cb_crc),
    b.cb_storage), b.cb_idle)
  in
  let cid = b.cb_client_id in
  let (p0, idl) = p in
  let (p6, st0) = p0 in
  let (p7, crc) = p6 in
  let (p8, rl) = p7 in
  let (p9, mx) = p8 in
  let (p10, mn) = p9 in
  let (p11, w) = p10 in
  let (p12, f) = p11 in
  let (g, a) = p12 in
  (match c with
   | CWithGroup x -> cb_upd b x a f w mn mx rl crc st0 idl cid
   | CWithTopic t0 ->
     cb_upd b g (map_insert a t0 []) f w mn mx rl crc st0 idl cid
   | CWithTopicPartitions (t0, ps) ->
     cb_upd b g (map_insert a t0 ps) f w mn mx rl crc st0 idl cid
   | CWithFallback x -> cb_upd b g a x w mn mx rl crc st0 idl cid
   | CWithMaxWait x -> cb_upd b g a f x mn mx rl crc st0 idl cid
   | CWithMinBytes x -> cb_upd b g a f w x mx rl crc st0 idl cid
   | CWithMaxBytes x -> cb_upd b g a f w mn x rl crc st0 idl cid
   | CWithCrc x -> cb_upd b g a f w mn mx rl x st0 idl cid
   | CWithStorage x ->
     cb_upd b g a f w mn mx rl crc
       (if (||) (Z.eqb x Z0) (Z.eqb x (Zpos XH)) then x else Zneg XH) idl cid
   | CWithRetryLimit x -> cb_upd b g a f w mn mx x crc st0 idl cid
   | CWithIdle x -> cb_upd b g a f w mn mx rl crc st0 x cid
   | CWithClientId x -> cb_upd b g a f w mn mx rl crc st0 idl (Some x))

(** val cfg_set_consumer : config -> cbuilder -> z -> config **)

let cfg_set_consumer g b wait =
  { client_id =
    (match b.cb_client_id with
     | Some id -> id
     | None -> g.client_id); hosts = g.hosts; compression = g.compression;
    fetch_max_wait_time = wait; fetch_min_bytes = b.cb_min_bytes;
    fetch_max_bytes_per_partition = b.cb_max_bytes; fetch_crc_validation =
    b.cb_crc; offset_storage = b.cb_storage; retry_backoff_time =
    g.retry_backoff_time; retry_max_attempts = g.retry_max_attempts;
    idle_timeout = b.cb_idle }

(** val determine_partitions : cstate -> (bytes * z list) -> z list res **)

let determine_partitions s a =
  match partitions_for s (fst a) with
  | Some avail ->
    (match snd a with
     | [] -> Ok (iota_z (length avail) Z0)
     | z0 :: l ->
       let req = z0 :: l in
       if forallb (fun p ->
            match partition_ref avail p with
            | Some _ -> true
            | None -> false) req
       then Ok req
       else Err (EKafka kC_UnknownTopicOrPartition))
  | None -> Err (EKafka kC_UnknownTopicOrPartition)

(** val subscriptions_of :
    cstate -> (bytes * z list) list -> (bytes * z list) list res **)

let rec subscriptions_of s = function
| [] -> Ok []
| a :: r ->
  bind (determine_partitions s a) (fun ps ->
    bind (subscriptions_of s r) (fun rest -> Ok (((fst a), ps) :: rest)))

(** val i64_op : bool -> z -> z res **)

let i64_op dbg z0 =
  if (&&) (Z.leb i64_min z0) (Z.leb z0 i64_max)
  then Ok z0
  else if dbg
       then Panic
              (tag (String ((Ascii (true, false, false, false, false, true,
                true, false)), (String ((Ascii (false, false, true, false,
                true, true, true, false)), (String ((Ascii (false, false,
                true, false, true, true, true, false)), (String ((Ascii
                (true, false, true, false, false, true, true, false)),
                (String ((Ascii (true, false, true, true, false, true, true,
                false)), (String ((Ascii (false, false, false, false, true,
                true, true, false)), (String ((Ascii (false, false, true,
                false, true, true, true, false)), (String ((Ascii (false,
                false, false, false, false, true, false, false)), (String
                ((Ascii (false, false, true, false, true, true, true,
                false)), (String ((Ascii (true, true, true, true, false,
                true, true, false)), (String ((Ascii (false, false, false,
                false, false, true, false, false)), (String ((Ascii (true,
                false, false, false, false, true, true, false)), (String
                ((Ascii (false, false, true, false, false, true, true,
                false)), (String ((Ascii (false, false, true, false, false,
                true, true, false)), (String ((Ascii (true, true, true, true,
                false, true, false, false)), (String ((Ascii (true, true,
                false, false, true, true, true, false)), (String ((Ascii
                (true, false, true, false, true, true, true, false)), (String
                ((Ascii (false, true, false, false, false, true, true,
                false)), (String ((Ascii (false, false, true, false, true,
                true, true, false)), (String ((Ascii (false, true, false,
                false, true, true, true, false)), (String ((Ascii (true,
                false, false, false, false, true, true, false)), (String
                ((Ascii (true, true, false, false, false, true, true,
                false)), (String ((Ascii (false, false, true, false, true,
                true, true, false)), (String ((Ascii (false, false, false,
                false, false, true, false, false)), (String ((Ascii (true,
                true, true, false, true, true, true, false)), (String ((Ascii
                (true, false, false, true, false, true, true, false)),
                (String ((Ascii (false, false, true, false, true, true, true,
                false)), (String ((Ascii (false, false, false, true, false,
                true, true, false)), (String ((Ascii (false, false, false,
                false, false, true, false, false)), (String ((Ascii (true,
                true, true, true, false, true, true, false)), (String ((Ascii
                (false, true, true, false, true, true, true, false)), (String
                ((Ascii (true, false, true, false, false, true, true,
                false)), (String ((Ascii (false, true, false, false, true,
                true, true, false)), (String ((Ascii (false, true, true,
                false, false, true, true, false)), (String ((Ascii (false,
                false, true, true, false, true, true, false)), (String
                ((Ascii (true, true, true, true, false, true, true, false)),
                (String ((Ascii (true, true, true, false, true, true, true,
                false)),
                EmptyString)))))))))))))))))))))))))))))))))))))))))))))))))))))))))))))))))))))))))))
       else Ok (wrap_s (Zpos (XO (XO (XO (XO (XO (XO XH))))))) z0)

(** val i32_op : bool -> z -> z res **)

let i32_op dbg z0 =
  if (&&) (Z.leb i32_min z0) (Z.leb z0 i32_max)
  then Ok z0
  else if dbg
       then Panic
              (tag (String ((Ascii (true, false, false, false, false, true,
                true, false)), (String ((Ascii (false, false, true, false,
                true, true, true, false)), (String ((Ascii (false, false,
                true, false, true, true, true, false)), (String ((Ascii
                (true, false, true, false, false, true, true, false)),
                (String ((Ascii (true, false, true, true, false, true, true,
                false)), (String ((Ascii (false, false, false, false, true,
                true, true, false)), (String ((Ascii (false, false, true,
                false, true, true, true, false)), (String ((Ascii (false,
                false, false, false, false, true, false, false)), (String
                ((Ascii (false, false, true, false, true, true, true,
                false)), (String ((Ascii (true, true, true, true, false,
                true, true, false)), (String ((Ascii (false, false, false,
                false, false, true, false, false)), (String ((Ascii (true,
                false, false, false, false, true, true, false)), (String
                ((Ascii (false, false, true, false, false, true, true,
                false)), (String ((Ascii (false, false, true, false, false,
                true, true, false)), (String ((Ascii (true, true, true, true,
                false, true, false, false)), (String ((Ascii (true, true,
                false, false, true, true, true, false)), (String ((Ascii
                (true, false, true, false, true, true, true, false)), (String
                ((Ascii (false, true, false, false, false, true, true,
                false)), (String ((Ascii (false, false, true, false, true,
                true, true, false)), (String ((Ascii (false, true, false,
                false, true, true, true, false)), (String ((Ascii (true,
                false, false, false, false, true, true, false)), (String
                ((Ascii (true, true, false, false, false, true, true,
                false)), (String ((Ascii (false, false, true, false, true,
                true, true, false)), (String ((Ascii (false, false, false,
                false, false, true, false, false)), (String ((Ascii (true,
                true, true, false, true, true, true, false)), (String ((Ascii
                (true, false, false, true, false, true, true, false)),
                (String ((Ascii (false, false, true, false, true, true, true,
                false)), (String ((Ascii (false, false, false, true, false,
                true, true, false)), (String ((Ascii (false, false, false,
                false, false, true, false, false)), (String ((Ascii (true,
                true, true, true, false, true, true, false)), (String ((Ascii
                (false, true, true, false, true, true, true, false)), (String
                ((Ascii (true, false, true, false, false, true, true,
                false)), (String ((Ascii (false, true, false, false, true,
                true, true, false)), (String ((Ascii (false, true, true,
                false, false, true, true, false)), (String ((Ascii (false,
                false, true, true, false, true, true, false)), (String
                ((Ascii (true, true, true, true, false, true, true, false)),
                (String ((Ascii (true, true, true, false, true, true, true,
                false)),
                EmptyString)))))))))))))))))))))))))))))))))))))))))))))))))))))))))))))))))))))))))))
       else Ok (wrap_s (Zpos (XO (XO (XO (XO (XO XH)))))) z0)

(** val consumed_parts :
    bool -> z -> (z * z) list -> (tpkey * (z * bool)) list ->
    (tpkey * (z * bool)) list res **)

let rec consumed_parts dbg r pos m0 =
  match pos with
  | [] -> Ok m0
  | p0 :: rest ->
    let (p, off) = p0 in
    if Z.eqb off (Zneg XH)
    then consumed_parts dbg r rest m0
    else bind (i64_op dbg (Z.sub off (Zpos XH))) (fun o ->
           consumed_parts dbg r rest (tk_set (r, p) (o, false) m0))

(** val consumed_topics :
    bool -> (bytes * z list) list -> (bytes * (z * z) list) list ->
    (tpkey * (z * bool)) list -> (tpkey * (z * bool)) list res **)

let rec consumed_topics dbg asg tpos m0 =
  match tpos with
  | [] -> Ok m0
  | p :: rest ->
    let (t0, pos) = p in
    (match pos with
     | [] -> consumed_topics dbg asg rest m0
     | _ :: _ ->
       if forallb (fun pat -> let (_, off) = pat in Z.eqb off (Zneg XH)) pos
       then consumed_topics dbg asg rest m0
       else (match topic_ref asg t0 with
             | Some r ->
               bind (consumed_parts dbg r pos m0) (fun m' ->
                 consumed_topics dbg asg rest m')
             | None ->
               Panic
                 (tag (String ((Ascii (false, true, true, true, false, true,
                   true, false)), (String ((Ascii (true, true, true, true,
                   false, true, true, false)), (String ((Ascii (false, true,
                   true, true, false, true, true, false)), (String ((Ascii
                   (true, false, true, true, false, true, false, false)),
                   (String ((Ascii (true, false, false, false, false, true,
                   true, false)), (String ((Ascii (true, true, false, false,
                   true, true, true, false)), (String ((Ascii (true, true,
                   false, false, true, true, true, false)), (String ((Ascii
                   (true, false, false, true, false, true, true, false)),
                   (String ((Ascii (true, true, true, false, false, true,
                   true, false)), (String ((Ascii (false, true, true, true,
                   false, true, true, false)), (String ((Ascii (true, false,
                   true, false, false, true, true, false)), (String ((Ascii
                   (false, false, true, false, false, true, true, false)),
                   (String ((Ascii (false, false, false, false, false, true,
                   false, false)), (String ((Ascii (false, false, true,
                   false, true, true, true, false)), (String ((Ascii (true,
                   true, true, true, false, true, true, false)), (String
                   ((Ascii (false, false, false, false, true, true, true,
                   false)), (String ((Ascii (true, false, false, true, false,
                   true, true, false)), (String ((Ascii (true, true, false,
                   false, false, true, true, false)),
                   EmptyString)))))))))))))))))))))))))))))))))))))))

(** val load_consumed_offsets :
    bytes -> (bytes * z list) list -> (bytes * z list) list ->
    (tpkey * (z * bool)) list m **)

let load_consumed_offsets group asg subs =
  match group with
  | [] -> ret []
  | _ :: _ ->
    mbind
      (fetch_group_offsets group
        (flat_map (fun pat ->
          let (t0, ps) = pat in map (fun p -> (t0, p)) ps) subs))
      (fun tpos ->
      mbind get_env (fun e ->
        lift (consumed_topics e.debug_build asg tpos [])))

(** val pidx : (z * z) list -> (z * z) list **)

let pidx poffs =
  fold_left (fun m0 pat -> let (p, o) = pat in idx_insert m0 p o) poffs []

(** val load_partition_offsets :
    bytes list -> z -> (bytes * (z * z) list) list m **)

let load_partition_offsets topics time =
  mbind (fetch_offsets topics time) (fun m0 ->
    ret (map (fun pat -> let (t0, ps) = pat in (t0, (pidx ps))) m0))

(** val lookup_off : (bytes * (z * z) list) list -> bytes -> z -> z **)

let lookup_off m0 t0 p =
  match assoc_bytes t0 m0 with
  | Some ps -> (match assoc_z p ps with
                | Some o -> o
                | None -> Zneg XH)
  | None -> Zneg XH

(** val fallback_states :
    (bytes * z list) list -> (bytes * (z * z) list) list -> z -> (bytes * z
    list) list -> (tpkey * (z * z)) list -> (tpkey * (z * z)) list res **)

let rec fallback_states asg offsets maxb subs acc =
  match subs with
  | [] -> Ok acc
  | p :: rest ->
    let (t0, ps) = p in
    (match topic_ref asg t0 with
     | Some r ->
       (match assoc_bytes t0 offsets with
        | Some offs ->
          fallback_states asg offsets maxb rest
            (fold_left (fun acc0 p0 ->
              tk_set (r, p0)
                ((match assoc_z p0 offs with
                  | Some o -> o
                  | None -> Zneg XH), maxb) acc0) ps acc)
        | None -> Err (EKafka kC_UnknownTopicOrPartition))
     | None ->
       Panic
         (tag (String ((Ascii (true, false, true, false, true, true, true,
           false)), (String ((Ascii (false, true, true, true, false, true,
           true, false)), (String ((Ascii (true, false, false, false, false,
           true, true, false)), (String ((Ascii (true, true, false, false,
           true, true, true, false)), (String ((Ascii (true, true, false,
           false, true, true, true, false)), (String ((Ascii (true, false,
           false, true, false, true, true, false)), (String ((Ascii (true,
           true, true, false, false, true, true, false)), (String ((Ascii
           (false, true, true, true, false, true, true, false)), (String
           ((Ascii (true, false, true, false, false, true, true, false)),
           (String ((Ascii (false, false, true, false, false, true, true,
           false)), (String ((Ascii (false, false, false, false, false, true,
           false, false)), (String ((Ascii (true, true, false, false, true,
           true, true, false)), (String ((Ascii (true, false, true, false,
           true, true, true, false)), (String ((Ascii (false, true, false,
           false, false, true, true, false)), (String ((Ascii (true, true,
           false, false, true, true, true, false)), (String ((Ascii (true,
           true, false, false, false, true, true, false)), (String ((Ascii
           (false, true, false, false, true, true, true, false)), (String
           ((Ascii (true, false, false, true, false, true, true, false)),
           (String ((Ascii (false, false, false, false, true, true, true,
           false)), (String ((Ascii (false, false, true, false, true, true,
           true, false)), (String ((Ascii (true, false, false, true, false,
           true, true, false)), (String ((Ascii (true, true, true, true,
           false, true, true, false)), (String ((Ascii (false, true, true,
           true, false, true, true, false)),
           EmptyString))))))))))))))))))))))))))))))))))))))))))))))))

(** val start_offset :
    bool -> fallback -> (z * bool) option -> z -> z -> z res **)

let start_offset dbg fb co e_off l_off =
  let fbk =
    match fb with
    | FbEarliest -> Ok e_off
    | FbLatest -> Ok l_off
    | FbByTime _ -> Err (EKafka kC_Unknown)
  in
  (match co with
   | Some p ->
     let (o, _) = p in
     bind (i64_op dbg (Z.add o (Zpos XH))) (fun o1 ->
       if (&&) (Z.leb e_off o1) (Z.ltb o l_off) then Ok o1 else fbk)
   | None -> fbk)

(** val range_parts :
    bool -> fallback -> (tpkey * (z * bool)) list -> (bytes * (z * z) list)
    list -> (bytes * (z * z) list) list -> z -> bytes -> z -> z list ->
    (tpkey * (z * z)) list -> (tpkey * (z * z)) list res **)

let rec range_parts dbg fb consumed latest earliest maxb t0 r ps acc =
  match ps with
  | [] -> Ok acc
  | p :: rest ->
    bind
      (start_offset dbg fb (tk_get (r, p) consumed)
        (lookup_off earliest t0 p) (lookup_off latest t0 p)) (fun off ->
      range_parts dbg fb consumed latest earliest maxb t0 r rest
        (tk_set (r, p) (off, maxb) acc))

(** val range_states :
    bool -> fallback -> (bytes * z list) list -> (tpkey * (z * bool)) list ->
    (bytes * (z * z) list) list -> (bytes * (z * z) list) list -> z ->
    (bytes * z list) list -> (tpkey * (z * z)) list -> (tpkey * (z * z)) list
    res **)

let rec range_states dbg fb asg consumed latest earliest maxb subs acc =
  match subs with
  | [] -> Ok acc
  | p :: rest ->
    let (t0, ps) = p in
    (match topic_ref asg t0 with
     | Some r ->
       bind (range_parts dbg fb consumed latest earliest maxb t0 r ps acc)
         (fun acc' ->
         range_states dbg fb asg consumed latest earliest maxb rest acc')
     | None ->
       Panic
         (tag (String ((Ascii (true, false, true, false, true, true, true,
           false)), (String ((Ascii (false, true, true, true, false, true,
           true, false)), (String ((Ascii (true, false, false, false, false,
           true, true, false)), (String ((Ascii (true, true, false, false,
           true, true, true, false)), (String ((Ascii (true, true, false,
           false, true, true, true, false)), (String ((Ascii (true, false,
           false, true, false, true, true, false)), (String ((Ascii (true,
           true, true, false, false, true, true, false)), (String ((Ascii
           (false, true, true, true, false, true, true, false)), (String
           ((Ascii (true, false, true, false, false, true, true, false)),
           (String ((Ascii (false, false, true, false, false, true, true,
           false)), (String ((Ascii (false, false, false, false, false, true,
           false, false)), (String ((Ascii (true, true, false, false, true,
           true, true, false)), (String ((Ascii (true, false, true, false,
           true, true, true, false)), (String ((Ascii (false, true, false,
           false, false, true, true, false)), (String ((Ascii (true, true,
           false, false, true, true, true, false)), (String ((Ascii (true,
           true, false, false, false, true, true, false)), (String ((Ascii
           (false, true, false, false, true, true, true, false)), (String
           ((Ascii (true, false, false, true, false, true, true, false)),
           (String ((Ascii (false, false, false, false, true, true, true,
           false)), (String ((Ascii (false, false, true, false, true, true,
           true, false)), (String ((Ascii (true, false, false, true, false,
           true, true, false)), (String ((Ascii (true, true, true, true,
           false, true, true, false)), (String ((Ascii (false, true, true,
           true, false, true, true, false)),
           EmptyString))))))))))))))))))))))))))))))))))))))))))))))))

(** val load_fetch_states :
    fallback -> (bytes * z list) list -> (bytes * z list) list ->
    (tpkey * (z * bool)) list -> (tpkey * (z * z)) list m **)

let load_fetch_states fb asg subs consumed =
  mbind get_client (fun c ->
    mbind get_env (fun e ->
      let maxb = c.cfg.fetch_max_bytes_per_partition in
      let topics = map fst subs in
      (match consumed with
       | [] ->
         mbind (load_partition_offsets topics (fallback_time fb))
           (fun offsets -> lift (fallback_states asg offsets maxb subs []))
       | _ :: _ ->
         mbind (load_partition_offsets topics fETCH_OFFSET_LATEST)
           (fun latest ->
           mbind (load_partition_offsets topics fETCH_OFFSET_EARLIEST)
             (fun earliest ->
             lift
               (range_states e.debug_build fb asg consumed latest earliest
                 maxb subs []))))))

(** val consumer_create :
    (bytes list, client) sum -> cbuilder_call list -> consumer m **)

let consumer_create src calls =
  let b = fold_left cbuilder_apply calls (cbuilder_new src) in
  (match b.cb_assign with
   | [] -> fail ENoTopicsAssigned
   | _ :: _ ->
     mbind get_client (fun c ->
       mbind (lift (to_millis_i32 b.cb_max_wait)) (fun wait ->
         mbind
           (set_client { cfg = (cfg_set_consumer c.cfg b wait); cs = c.cs;
             conns = c.conns }) (fun _ ->
           mbind
             (match src with
              | Inl _ -> load_metadata_all
              | Inr _ -> ret ()) (fun _ ->
             let asg = from_map b.cb_assign in
             mbind get_client (fun c1 ->
               mbind (lift (subscriptions_of c1.cs asg)) (fun subs ->
                 mbind (load_consumed_offsets b.cb_group asg subs)
                   (fun consumed ->
                   mbind (load_fetch_states b.cb_fallback asg subs consumed)
                     (fun fetch ->
                     mbind get_client (fun c2 ->
                       ret { k_client = c2; k_group = b.cb_group;
                         k_fallback = b.cb_fallback; k_retry_limit =
                         b.cb_retry_limit; k_assign = asg; k_fetch = fetch;
                         k_retry = []; k_consumed = consumed }))))))))))

type message_sets = { ms_responses : fetch_resp list; ms_empty : bool }

(** val iterate : message_sets -> ((bytes * z) * message list) list **)

let iterate ms =
  flat_map (fun r ->
    flat_map (fun t0 ->
      flat_map (fun p ->
        match p.fp_data with
        | Inl p0 ->
          let (_, msgs) = p0 in
          (match msgs with
           | [] -> []
           | _ :: _ -> ((t0.ft_topic, p.fp_partition), msgs) :: [])
        | Inr _ -> []) t0.ft_partitions) r.fr_topics) ms.ms_responses

(** val consumer_fetch :
    consumer -> ((z * fetch_resp list res) * consumer) m **)

let consumer_fetch k =
  match k.k_retry with
  | [] ->
    mbind
      (mtry
        (fetch_messages
          (map (fun pat ->
            let (y, y0) = pat in
            let (tr, p) = y in
            let (off, maxb) = y0 in
            { fq_topic = (topic_name k tr); fq_partition = p; fq_offset =
            off; fq_max_bytes = maxb }) k.k_fetch))) (fun r ->
      ret (((ulen k.k_fetch), r), k))
  | tp :: rest ->
    let k' = consumer_with k k.k_fetch rest k.k_consumed in
    (match tk_get tp k.k_fetch with
     | Some p ->
       let (off, maxb) = p in
       mbind
         (mtry
           (fetch_messages ({ fq_topic = (topic_name k (fst tp));
             fq_partition = (snd tp); fq_offset = off; fq_max_bytes =
             maxb } :: []))) (fun r -> ret (((Zpos XH), r), k'))
     | None ->
       ret (((Zpos XH), (Err (EKafka kC_UnknownTopicOrPartition))), k'))

(** val last_msg : message list -> message option **)

let last_msg ms =
  match rev ms with
  | [] -> None
  | m0 :: _ -> Some m0

(** val first_part_error : fetch_part list -> z option **)

let rec first_part_error = function
| [] -> None
| p :: r ->
  (match p.fp_data with
   | Inl _ -> first_part_error r
   | Inr c -> Some c)

(** val first_error : fetch_resp list -> z option **)

let first_error resps =
  first_part_error
    (flat_map (fun f -> f.ft_partitions)
      (flat_map (fun f -> f.fr_topics) resps))

type pstate = { ps_fetch : (tpkey * (z * z)) list; ps_retry : tpkey list;
                ps_empty : bool }

type pres =
| POk of pstate
| PErr of err * pstate
| PPanic of bytes

(** val process_partition :
    bool -> bool -> z -> z -> z -> z -> fetch_part -> pstate -> pres **)

let process_partition dbg single n0 client_maxb limit r p s =
  let tp = (r, p.fp_partition) in
  (match p.fp_data with
   | Inl p0 ->
     let (hw, msgs) = p0 in
     (match tk_get tp s.ps_fetch with
      | Some p6 ->
        let (off, maxb) = p6 in
        (match last_msg msgs with
         | Some m0 ->
           (match i64_op dbg (Z.add m0.m_offset (Zpos XH)) with
            | Ok off' ->
              POk { ps_fetch = (tk_set tp (off', client_maxb) s.ps_fetch);
                ps_retry = s.ps_retry; ps_empty = false }
            | Err e -> PErr (e, s)
            | Panic w -> PPanic w)
         | None ->
           if Z.ltb off hw
           then if Z.ltb maxb limit
                then (match i32_op dbg (Z.add maxb maxb) with
                      | Ok incr ->
                        let maxb' = if Z.ltb limit incr then limit else incr
                        in
                        POk { ps_fetch = (tk_set tp (off, maxb') s.ps_fetch);
                        ps_retry =
                        (if single
                         then s.ps_retry
                         else app s.ps_retry (tp :: [])); ps_empty =
                        s.ps_empty }
                      | Err e -> PErr (e, s)
                      | Panic w -> PPanic w)
                else if Z.eqb n0 (Zpos XH)
                     then PErr ((EKafka kC_MessageSizeTooLarge), s)
                     else POk { ps_fetch = s.ps_fetch; ps_retry =
                            (if single
                             then s.ps_retry
                             else app s.ps_retry (tp :: [])); ps_empty =
                            s.ps_empty }
           else POk s)
      | None ->
        PPanic
          (tag (String ((Ascii (false, true, true, true, false, true, true,
            false)), (String ((Ascii (true, true, true, true, false, true,
            true, false)), (String ((Ascii (false, true, true, true, false,
            true, true, false)), (String ((Ascii (true, false, true, true,
            false, true, false, false)), (String ((Ascii (false, true, false,
            false, true, true, true, false)), (String ((Ascii (true, false,
            true, false, false, true, true, false)), (String ((Ascii (true,
            false, false, false, true, true, true, false)), (String ((Ascii
            (true, false, true, false, true, true, true, false)), (String
            ((Ascii (true, false, true, false, false, true, true, false)),
            (String ((Ascii (true, true, false, false, true, true, true,
            false)), (String ((Ascii (false, false, true, false, true, true,
            true, false)), (String ((Ascii (true, false, true, false, false,
            true, true, false)), (String ((Ascii (false, false, true, false,
            false, true, true, false)), (String ((Ascii (false, false, false,
            false, false, true, false, false)), (String ((Ascii (false,
            false, false, false, true, true, true, false)), (String ((Ascii
            (true, false, false, false, false, true, true, false)), (String
            ((Ascii (false, true, false, false, true, true, true, false)),
            (String ((Ascii (false, false, true, false, true, true, true,
            false)), (String ((Ascii (true, false, false, true, false, true,
            true, false)), (String ((Ascii (false, false, true, false, true,
            true, true, false)), (String ((Ascii (true, false, false, true,
            false, true, true, false)), (String ((Ascii (true, true, true,
            true, false, true, true, false)), (String ((Ascii (false, true,
            true, true, false, true, true, false)),
            EmptyString))))))))))))))))))))))))))))))))))))))))))))))))
   | Inr c -> PErr ((EKafka c), s))

(** val process_parts :
    bool -> bool -> z -> z -> z -> z -> fetch_part list -> pstate -> pres **)

let rec process_parts dbg single n0 cm limit r ps s =
  match ps with
  | [] -> POk s
  | p :: rest ->
    (match process_partition dbg single n0 cm limit r p s with
     | POk s' -> process_parts dbg single n0 cm limit r rest s'
     | x -> x)

(** val process_topics :
    bool -> bool -> z -> z -> z -> (bytes * z list) list -> fetch_topic list
    -> pstate -> pres **)

let rec process_topics dbg single n0 cm limit asg ts s =
  match ts with
  | [] -> POk s
  | t0 :: rest ->
    (match topic_ref asg t0.ft_topic with
     | Some r ->
       (match process_parts dbg single n0 cm limit r t0.ft_partitions s with
        | POk s' -> process_topics dbg single n0 cm limit asg rest s'
        | x -> x)
     | None ->
       PPanic
         (tag (String ((Ascii (true, false, true, false, true, true, true,
           false)), (String ((Ascii (false, true, true, true, false, true,
           true, false)), (String ((Ascii (true, true, false, true, false,
           true, true, false)), (String ((Ascii (false, true, true, true,
           false, true, true, false)), (String ((Ascii (true, true, true,
           true, false, true, true, false)), (String ((Ascii (true, true,
           true, false, true, true, true, false)), (String ((Ascii (false,
           true, true, true, false, true, true, false)), (String ((Ascii
           (false, false, false, false, false, true, false, false)), (String
           ((Ascii (false, false, true, false, true, true, true, false)),
           (String ((Ascii (true, true, true, true, false, true, true,
           false)), (String ((Ascii (false, false, false, false, true, true,
           true, false)), (String ((Ascii (true, false, false, true, false,
           true, true, false)), (String ((Ascii (true, true, false, false,
           false, true, true, false)), (String ((Ascii (false, false, false,
           false, false, true, false, false)), (String ((Ascii (true, false,
           false, true, false, true, true, false)), (String ((Ascii (false,
           true, true, true, false, true, true, false)), (String ((Ascii
           (false, false, false, false, false, true, false, false)), (String
           ((Ascii (false, true, false, false, true, true, true, false)),
           (String ((Ascii (true, false, true, false, false, true, true,
           false)), (String ((Ascii (true, true, false, false, true, true,
           true, false)), (String ((Ascii (false, false, false, false, true,
           true, true, false)), (String ((Ascii (true, true, true, true,
           false, true, true, false)), (String ((Ascii (false, true, true,
           true, false, true, true, false)), (String ((Ascii (true, true,
           false, false, true, true, true, false)), (String ((Ascii (true,
           false, true, false, false, true, true, false)),
           EmptyString))))))))))))))))))))))))))))))))))))))))))))))))))))

(** val process_fetch_responses :
    bool -> consumer -> z -> fetch_resp list -> message_sets res * consumer **)

let process_fetch_responses dbg k n0 resps =
  match first_error resps with
  | Some c -> ((Err (EKafka c)), k)
  | None ->
    let single = Z.eqb (ulen k.k_fetch) (Zpos XH) in
    let cm = k.k_client.cfg.fetch_max_bytes_per_partition in
    (match process_topics dbg single n0 cm k.k_retry_limit k.k_assign
             (flat_map (fun f -> f.fr_topics) resps) { ps_fetch = k.k_fetch;
             ps_retry = k.k_retry; ps_empty = true } with
     | POk s ->
       ((Ok { ms_responses = resps; ms_empty = s.ps_empty }),
         (consumer_with k s.ps_fetch s.ps_retry k.k_consumed))
     | PErr (e, s) ->
       ((Err e), (consumer_with k s.ps_fetch s.ps_retry k.k_consumed))
     | PPanic w -> ((Panic w), k))

(** val consumer_poll : consumer -> (message_sets res * consumer) m **)

let consumer_poll k =
  mbind (consumer_fetch k) (fun x ->
    let (p, k') = x in
    let (n0, r) = p in
    mbind get_client (fun c ->
      mbind get_env (fun e ->
        let k1 = consumer_with_client k' c in
        (match r with
         | Ok resps -> ret (process_fetch_responses e.debug_build k1 n0 resps)
         | Err er -> ret ((Err er), k1)
         | Panic w -> mpanic w))))

(** val consumer_seek : consumer -> bytes -> z -> z -> consumer res **)

let consumer_seek k topic p off =
  match topic_ref k.k_assign topic with
  | Some r ->
    (match tk_get (r, p) k.k_fetch with
     | Some p0 ->
       let (_, maxb) = p0 in
       Ok
       (consumer_with k (tk_set (r, p) (off, maxb) k.k_fetch) k.k_retry
         k.k_consumed)
     | None -> Err (ETopicPartition (topic, p, kC_UnknownTopicOrPartition)))
  | None -> Err (EKafka kC_UnknownTopicOrPartition)

(** val consume_message : consumer -> bytes -> z -> z -> consumer res **)

let consume_message k topic p off =
  match topic_ref k.k_assign topic with
  | Some r ->
    (match tk_get (r, p) k.k_fetch with
     | Some _ ->
       (match tk_get (r, p) k.k_consumed with
        | Some p0 ->
          let (o, _) = p0 in
          if Z.ltb o off
          then Ok
                 (consumer_with k k.k_fetch k.k_retry
                   (tk_set (r, p) (off, true) k.k_consumed))
          else Ok k
        | None ->
          Ok
            (consumer_with k k.k_fetch k.k_retry
              (tk_set (r, p) (off, true) k.k_consumed)))
     | None -> Err (EKafka kC_UnknownTopicOrPartition))
  | None -> Err (EKafka kC_UnknownTopicOrPartition)

(** val last_consumed_message : consumer -> bytes -> z -> z option **)

let last_consumed_message k topic p =
  match topic_ref k.k_assign topic with
  | Some r -> option_map fst (tk_get (r, p) k.k_consumed)
  | None -> None

(** val take_entry :
    (bytes * z) -> ((bytes * z) * z) list ->
    (((bytes * z) * z) * ((bytes * z) * z) list) option **)

let rec take_entry key = function
| [] -> None
| p0 :: r ->
  let (p6, o) = p0 in
  let (t0, p) = p6 in
  if (&&) (bytes_eqb t0 (fst key)) (Z.eqb p (snd key))
  then Some (((t0, p), o), r)
  else (match take_entry key r with
        | Some p7 -> let (x, r') = p7 in Some (x, (((t0, p), o) :: r'))
        | None -> None)

(** val reorder_entries :
    (bytes * z) list -> ((bytes * z) * z) list -> ((bytes * z) * z) list **)

let rec reorder_entries order l =
  match order with
  | [] -> l
  | key :: ks ->
    (match take_entry key l with
     | Some p -> let (x, r) = p in x :: (reorder_entries ks r)
     | None -> reorder_entries ks l)

(** val dirty_entries : consumer -> ((bytes * z) * z) list **)

let dirty_entries k =
  flat_map (fun pat ->
    let (y, y0) = pat in
    let (r, p) = y in
    let (o, dirty) = y0 in
    if dirty then (((topic_name k r), p), o) :: [] else []) k.k_consumed

(** val commit_entries :
    bool -> ((bytes * z) * z) list -> commit_offset list res **)

let rec commit_entries dbg = function
| [] -> Ok []
| p0 :: r ->
  let (p6, o) = p0 in
  let (t0, p) = p6 in
  bind (i64_op dbg (Z.add o (Zpos XH))) (fun o1 ->
    bind (commit_entries dbg r) (fun rest -> Ok ({ co_topic = t0;
      co_partition = p; co_offset = o1 } :: rest)))

(** val commit_consumed : consumer -> consumer m **)

let commit_consumed k =
  match k.k_group with
  | [] -> fail EUnsetGroupId
  | b :: l ->
    mbind get_env (fun e ->
      mbind (match dirty_entries k with
             | [] -> ret []
             | _ :: _ -> pop_entries) (fun order ->
        mbind
          (lift
            (commit_entries e.debug_build
              (reorder_entries order (dirty_entries k)))) (fun os ->
          mbind (commit_offsets (b :: l) os) (fun _ ->
            mbind get_client (fun c ->
              ret
                (consumer_with (consumer_with_client k c) k.k_fetch k.k_retry
                  (map (fun pat ->
                    let (key, y) = pat in let (o, _) = y in (key, (o, false)))
                    k.k_consumed)))))))

(** val subscriptions : consumer -> (bytes * z list) list **)

let subscriptions k =
  fold_left (fun acc pat ->
    let (y, _) = pat in
    let (r, p) = y in res_push acc (topic_name k r) (p :: [])) k.k_fetch []

type obj =
| ONone
| OClient of client
| OProducer of producer
| OConsumer of consumer

(** val client_of : obj -> client option **)

let client_of = function
| ONone -> None
| OClient c -> Some c
| OProducer p -> Some p.p_client
| OConsumer k -> Some k.k_client

(** val with_client : obj -> client -> obj **)

let with_client o c =
  match o with
  | ONone -> ONone
  | OClient _ -> OClient c
  | OProducer p -> OProducer (producer_with_client p c)
  | OConsumer k -> OConsumer (consumer_with_client k c)

(** val time_of : val0 -> z **)

let time_of v =
  if is_tag v (String ((Ascii (true, false, true, false, false, true, true,
       false)), (String ((Ascii (true, false, false, false, false, true,
       true, false)), (String ((Ascii (false, true, false, false, true, true,
       true, false)), (String ((Ascii (false, false, true, true, false, true,
       true, false)), (String ((Ascii (true, false, false, true, false, true,
       true, false)), (String ((Ascii (true, false, true, false, false, true,
       true, false)), (String ((Ascii (true, true, false, false, true, true,
       true, false)), (String ((Ascii (false, false, true, false, true, true,
       true, false)), EmptyString))))))))))))))))
  then fETCH_OFFSET_EARLIEST
  else if is_tag v (String ((Ascii (false, false, true, true, false, true,
            true, false)), (String ((Ascii (true, false, false, false, false,
            true, true, false)), (String ((Ascii (false, false, true, false,
            true, true, true, false)), (String ((Ascii (true, false, true,
            false, false, true, true, false)), (String ((Ascii (true, true,
            false, false, true, true, true, false)), (String ((Ascii (false,
            false, true, false, true, true, true, false)),
            EmptyString))))))))))))
       then fETCH_OFFSET_LATEST
       else vint (varg v O)

(** val opt_of : val0 -> bytes option **)

let opt_of v =
  if is_tag v (String ((Ascii (true, true, false, false, true, true, true,
       false)), (String ((Ascii (true, true, true, true, false, true, true,
       false)), (String ((Ascii (true, false, true, true, false, true, true,
       false)), (String ((Ascii (true, false, true, false, false, true, true,
       false)), EmptyString))))))))
  then Some (vbytes (varg v O))
  else None

(** val dur_val : (z * z) -> val0 **)

let dur_val d =
  VL ((VI (fst d)) :: ((VI (snd d)) :: []))

(** val millis_dur1 : z -> z * z **)

let millis_dur1 m0 =
  ((Z.div m0 (Zpos (XO (XO (XO (XI (XO (XI (XI (XI (XI XH))))))))))),
    (Z.mul
      (Z.modulo m0 (Zpos (XO (XO (XO (XI (XO (XI (XI (XI (XI XH)))))))))))
      (Zpos (XO (XO (XO (XO (XO (XO (XI (XO (XO (XI (XO (XO (XO (XO (XI (XO
      (XI (XI (XI XH))))))))))))))))))))))

(** val config_view : config -> val0 **)

let config_view c =
  VL
    ((vt (String ((Ascii (true, true, false, false, false, true, true,
       false)), (String ((Ascii (false, false, true, true, false, true, true,
       false)), (String ((Ascii (true, false, false, true, false, true, true,
       false)), (String ((Ascii (true, false, true, false, false, true, true,
       false)), (String ((Ascii (false, true, true, true, false, true, true,
       false)), (String ((Ascii (false, false, true, false, true, true, true,
       false)), (String ((Ascii (true, true, true, true, true, false, true,
       false)), (String ((Ascii (true, false, false, true, false, true, true,
       false)), (String ((Ascii (false, false, true, false, false, true,
       true, false)), EmptyString)))))))))))))))))) ((VB c.client_id) :: [])) :: (
    (vt (String ((Ascii (true, true, false, false, false, true, true,
      false)), (String ((Ascii (true, true, true, true, false, true, true,
      false)), (String ((Ascii (true, false, true, true, false, true, true,
      false)), (String ((Ascii (false, false, false, false, true, true, true,
      false)), (String ((Ascii (false, true, false, false, true, true, true,
      false)), (String ((Ascii (true, false, true, false, false, true, true,
      false)), (String ((Ascii (true, true, false, false, true, true, true,
      false)), (String ((Ascii (true, true, false, false, true, true, true,
      false)), (String ((Ascii (true, false, false, true, false, true, true,
      false)), (String ((Ascii (true, true, true, true, false, true, true,
      false)), (String ((Ascii (false, true, true, true, false, true, true,
      false)), EmptyString)))))))))))))))))))))) ((VI c.compression) :: [])) :: (
    (vt (String ((Ascii (false, true, true, false, false, true, true,
      false)), (String ((Ascii (true, false, true, false, false, true, true,
      false)), (String ((Ascii (false, false, true, false, true, true, true,
      false)), (String ((Ascii (true, true, false, false, false, true, true,
      false)), (String ((Ascii (false, false, false, true, false, true, true,
      false)), (String ((Ascii (true, true, true, true, true, false, true,
      false)), (String ((Ascii (true, false, true, true, false, true, true,
      false)), (String ((Ascii (true, false, false, false, false, true, true,
      false)), (String ((Ascii (false, false, false, true, true, true, true,
      false)), (String ((Ascii (true, true, true, true, true, false, true,
      false)), (String ((Ascii (true, true, true, false, true, true, true,
      false)), (String ((Ascii (true, false, false, false, false, true, true,
      false)), (String ((Ascii (true, false, false, true, false, true, true,
      false)), (String ((Ascii (false, false, true, false, true, true, true,
      false)), (String ((Ascii (true, true, true, true, true, false, true,
      false)), (String ((Ascii (false, false, true, false, true, true, true,
      false)), (String ((Ascii (true, false, false, true, false, true, true,
      false)), (String ((Ascii (true, false, true, true, false, true, true,
      false)), (String ((Ascii (true, false, true, false, false, true, true,
      false)), EmptyString))))))))))))))))))))))))))))))))))))))
      ((dur_val (millis_dur1 c.fetch_max_wait_time)) :: [])) :: ((vt (String
                                                                   ((Ascii
                                                                   (false,
                                                                   true,
                                                                   true,
                                                                   false,
                                                                   false,
                                                                   true,
                                                                   true,
                                                                   false)),
                                                                   (String
                                                                   ((Ascii
                                                                   (true,
                                                                   false,
                                                                   true,
                                                                   false,
                                                                   false,
                                                                   true,
                                                                   true,
                                                                   false)),
                                                                   (String
                                                                   ((Ascii
                                                                   (false,
                                                                   false,
                                                                   true,
                                                                   false,
                                                                   true,
                                                                   true,
                                                                   true,
                                                                   false)),
                                                                   (String
                                                                   ((Ascii
                                                                   (true,
                                                                   true,
                                                                   false,
                                                                   false,
                                                                   false,
                                                                   true,
                                                                   true,
                                                                   false)),
                                                                   (String
                                                                   ((Ascii
                                                                   (false,
                                                                   false,
                                                                   false,
                                                                   true,
                                                                   false,
                                                                   true,
                                                                   true,
                                                                   false)),
                                                                   (String
                                                                   ((Ascii
                                                                   (true,
                                                                   true,
                                                                   true,
                                                                   true,
                                                                   true,
                                                                   false,
                                                                   true,
                                                                   false)),
                                                                   (String
                                                                   ((Ascii
                                                                   (true,
                                                                   false,
                                                                   true,
                                                                   true,
                                                                   false,
                                                                   true,
                                                                   true,
                                                                   false)),
                                                                   (String
                                                                   ((Ascii
                                                                   (true,
                                                                   false,
                                                                   false,
                                                                   true,
                                                                   false,
                                                                   true,
                                                                   true,
                                                                   false)),
                                                                   (String
                                                                   ((Ascii
                                                                   (false,
                                                                   true,
                                                                   true,
                                                                   true,
                                                                   false,
                                                                   true,
                                                                   true,
                                                                   false)),
                                                                   (String
                                                                   ((Ascii
                                                                   (true,
                                                                   true,
                                                                   true,
                                                                   true,
                                                                   true,
                                                                   false,
                                                                   true,
                                                                   false)),
                                                                   (String
                                                                   ((Ascii
                                                                   (false,
                                                                   true,
                                                                   false,
                                                                   false,
                                                                   false,
                                                                   true,
                                                                   true,
                                                                   false)),
                                                                   (String
                                                                   ((Ascii
                                                                   (true,
                                                                   false,
                                                                   false,
                                                                   true,
                                                                   true,
                                                                   true,
                                                                   true,
                                                                   false)),
                                                                   (String
                                                                   ((Ascii
                                                                   (false,
                                                                   false,
                                                                   true,
                                                                   false,
                                                                   true,
                                                                   true,
                                                                   true,
                                                                   false)),
                                                                   (String
                                                                   ((Ascii
                                                                   (true,
                                                                   false,
                                                                   true,
                                                                   false,
                                                                   false,
                                                                   true,
                                                                   true,
                                                                   false)),
                                                                   (String
                                                                   ((Ascii
                                                                   (true,
                                                                   true,
                                                                   false,
                                                                   false,
                                                                   true,
                                                                   true,
                                                                   true,
                                                                   false)),
                                                                   EmptyString))))))))))))))))))))))))))))))
                                                                   ((VI
                                                                   c.fetch_min_bytes) :: [])) :: (
    (vt (String ((Ascii (false, true, true, false, false, true, true,
      false)), (String ((Ascii (true, false, true, false, false, true, true,
      false)), (String ((Ascii (false, false, true, false, true, true, true,
      false)), (String ((Ascii (true, true, false, false, false, true, true,
      false)), (String ((Ascii (false, false, false, true, false, true, true,
      false)), (String ((Ascii (true, true, true, true, true, false, true,
      false)), (String ((Ascii (true, false, true, true, false, true, true,
      false)), (String ((Ascii (true, false, false, false, false, true, true,
      false)), (String ((Ascii (false, false, false, true, true, true, true,
      false)), (String ((Ascii (true, true, true, true, true, false, true,
      false)), (String ((Ascii (false, true, false, false, false, true, true,
      false)), (String ((Ascii (true, false, false, true, true, true, true,
      false)), (String ((Ascii (false, false, true, false, true, true, true,
      false)), (String ((Ascii (true, false, true, false, false, true, true,
      false)), (String ((Ascii (true, true, false, false, true, true, true,
      false)), (String ((Ascii (true, true, true, true, true, false, true,
      false)), (String ((Ascii (false, false, false, false, true, true, true,
      false)), (String ((Ascii (true, false, true, false, false, true, true,
      false)), (String ((Ascii (false, true, false, false, true, true, true,
      false)), (String ((Ascii (true, true, true, true, true, false, true,
      false)), (String ((Ascii (false, false, false, false, true, true, true,
      false)), (String ((Ascii (true, false, false, false, false, true, true,
      false)), (String ((Ascii (false, true, false, false, true, true, true,
      false)), (String ((Ascii (false, false, true, false, true, true, true,
      false)), (String ((Ascii (true, false, false, true, false, true, true,
      false)), (String ((Ascii (false, false, true, false, true, true, true,
      false)), (String ((Ascii (true, false, false, true, false, true, true,
      false)), (String ((Ascii (true, true, true, true, false, true, true,
      false)), (String ((Ascii (false, true, true, true, false, true, true,
      false)),
      EmptyString))))))))))))))))))))))))))))))))))))))))))))))))))))))))))
      ((VI c.fetch_max_bytes_per_partition) :: [])) :: ((vt (String ((Ascii
                                                          (false, true, true,
                                                          false, false, true,
                                                          true, false)),
                                                          (String ((Ascii
                                                          (true, false, true,
                                                          false, false, true,
                                                          true, false)),
                                                          (String ((Ascii
                                                          (false, false,
                                                          true, false, true,
                                                          true, true,
                                                          false)), (String
                                                          ((Ascii (true,
                                                          true, false, false,
                                                          false, true, true,
                                                          false)), (String
                                                          ((Ascii (false,
                                                          false, false, true,
                                                          false, true, true,
                                                          false)), (String
                                                          ((Ascii (true,
                                                          true, true, true,
                                                          true, false, true,
                                                          false)), (String
                                                          ((Ascii (true,
                                                          true, false, false,
                                                          false, true, true,
                                                          false)), (String
                                                          ((Ascii (false,
                                                          true, false, false,
                                                          true, true, true,
                                                          false)), (String
                                                          ((Ascii (true,
                                                          true, false, false,
                                                          false, true, true,
                                                          false)), (String
                                                          ((Ascii (true,
                                                          true, true, true,
                                                          true, false, true,
                                                          false)), (String
                                                          ((Ascii (false,
                                                          true, true, false,
                                                          true, true, true,
                                                          false)), (String
                                                          ((Ascii (true,
                                                          false, false,
                                                          false, false, true,
                                                          true, false)),
                                                          (String ((Ascii
                                                          (false, false,
                                                          true, true, false,
                                                          true, true,
                                                          false)), (String
                                                          ((Ascii (true,
                                                          false, false, true,
                                                          false, true, true,
                                                          false)), (String
                                                          ((Ascii (false,
                                                          false, true, false,
                                                          false, true, true,
                                                          false)), (String
                                                          ((Ascii (true,
                                                          false, false,
                                                          false, false, true,
                                                          true, false)),
                                                          (String ((Ascii
                                                          (false, false,
                                                          true, false, true,
                                                          true, true,
                                                          false)), (String
                                                          ((Ascii (true,
                                                          false, false, true,
                                                          false, true, true,
                                                          false)), (String
                                                          ((Ascii (true,
                                                          true, true, true,
                                                          false, true, true,
                                                          false)), (String
                                                          ((Ascii (false,
                                                          true, true, true,
                                                          false, true, true,
                                                          false)),
                                                          EmptyString))))))))))))))))))))))))))))))))))))))))
                                                          ((vbool
                                                             c.fetch_crc_validation) :: [])) :: (
    (vt (String ((Ascii (true, true, true, false, false, true, true, false)),
      (String ((Ascii (false, true, false, false, true, true, true, false)),
      (String ((Ascii (true, true, true, true, false, true, true, false)),
      (String ((Ascii (true, false, true, false, true, true, true, false)),
      (String ((Ascii (false, false, false, false, true, true, true, false)),
      (String ((Ascii (true, true, true, true, true, false, true, false)),
      (String ((Ascii (true, true, true, true, false, true, true, false)),
      (String ((Ascii (false, true, true, false, false, true, true, false)),
      (String ((Ascii (false, true, true, false, false, true, true, false)),
      (String ((Ascii (true, true, false, false, true, true, true, false)),
      (String ((Ascii (true, false, true, false, false, true, true, false)),
      (String ((Ascii (false, false, true, false, true, true, true, false)),
      (String ((Ascii (true, true, true, true, true, false, true, false)),
      (String ((Ascii (true, true, false, false, true, true, true, false)),
      (String ((Ascii (false, false, true, false, true, true, true, false)),
      (String ((Ascii (true, true, true, true, false, true, true, false)),
      (String ((Ascii (false, true, false, false, true, true, true, false)),
      (String ((Ascii (true, false, false, false, false, true, true, false)),
      (String ((Ascii (true, true, true, false, false, true, true, false)),
      (String ((Ascii (true, false, true, false, false, true, true, false)),
      EmptyString)))))))))))))))))))))))))))))))))))))))) ((VI
      c.offset_storage) :: [])) :: ((vt (String ((Ascii (false, true, false,
                                      false, true, true, true, false)),
                                      (String ((Ascii (true, false, true,
                                      false, false, true, true, false)),
                                      (String ((Ascii (false, false, true,
                                      false, true, true, true, false)),
                                      (String ((Ascii (false, true, false,
                                      false, true, true, true, false)),
                                      (String ((Ascii (true, false, false,
                                      true, true, true, true, false)),
                                      (String ((Ascii (true, true, true,
                                      true, true, false, true, false)),
                                      (String ((Ascii (false, true, false,
                                      false, false, true, true, false)),
                                      (String ((Ascii (true, false, false,
                                      false, false, true, true, false)),
                                      (String ((Ascii (true, true, false,
                                      false, false, true, true, false)),
                                      (String ((Ascii (true, true, false,
                                      true, false, true, true, false)),
                                      (String ((Ascii (true, true, true,
                                      true, false, true, true, false)),
                                      (String ((Ascii (false, true, true,
                                      false, false, true, true, false)),
                                      (String ((Ascii (false, true, true,
                                      false, false, true, true, false)),
                                      (String ((Ascii (true, true, true,
                                      true, true, false, true, false)),
                                      (String ((Ascii (false, false, true,
                                      false, true, true, true, false)),
                                      (String ((Ascii (true, false, false,
                                      true, false, true, true, false)),
                                      (String ((Ascii (true, false, true,
                                      true, false, true, true, false)),
                                      (String ((Ascii (true, false, true,
                                      false, false, true, true, false)),
                                      EmptyString))))))))))))))))))))))))))))))))))))
                                      ((dur_val c.retry_backoff_time) :: [])) :: (
    (vt (String ((Ascii (false, true, false, false, true, true, true,
      false)), (String ((Ascii (true, false, true, false, false, true, true,
      false)), (String ((Ascii (false, false, true, false, true, true, true,
      false)), (String ((Ascii (false, true, false, false, true, true, true,
      false)), (String ((Ascii (true, false, false, true, true, true, true,
      false)), (String ((Ascii (true, true, true, true, true, false, true,
      false)), (String ((Ascii (true, false, true, true, false, true, true,
      false)), (String ((Ascii (true, false, false, false, false, true, true,
      false)), (String ((Ascii (false, false, false, true, true, true, true,
      false)), (String ((Ascii (true, true, true, true, true, false, true,
      false)), (String ((Ascii (true, false, false, false, false, true, true,
      false)), (String ((Ascii (false, false, true, false, true, true, true,
      false)), (String ((Ascii (false, false, true, false, true, true, true,
      false)), (String ((Ascii (true, false, true, false, false, true, true,
      false)), (String ((Ascii (true, false, true, true, false, true, true,
      false)), (String ((Ascii (false, false, false, false, true, true, true,
      false)), (String ((Ascii (false, false, true, false, true, true, true,
      false)), (String ((Ascii (true, true, false, false, true, true, true,
      false)), EmptyString)))))))))))))))))))))))))))))))))))) ((VI
      c.retry_max_attempts) :: [])) :: ((vt (String ((Ascii (true, true,
                                          false, false, false, true, true,
                                          false)), (String ((Ascii (true,
                                          true, true, true, false, true,
                                          true, false)), (String ((Ascii
                                          (false, true, true, true, false,
                                          true, true, false)), (String
                                          ((Ascii (false, true, true, true,
                                          false, true, true, false)), (String
                                          ((Ascii (true, false, true, false,
                                          false, true, true, false)), (String
                                          ((Ascii (true, true, false, false,
                                          false, true, true, false)), (String
                                          ((Ascii (false, false, true, false,
                                          true, true, true, false)), (String
                                          ((Ascii (true, false, false, true,
                                          false, true, true, false)), (String
                                          ((Ascii (true, true, true, true,
                                          false, true, true, false)), (String
                                          ((Ascii (false, true, true, true,
                                          false, true, true, false)), (String
                                          ((Ascii (true, true, true, true,
                                          true, false, true, false)), (String
                                          ((Ascii (true, false, false, true,
                                          false, true, true, false)), (String
                                          ((Ascii (false, false, true, false,
                                          false, true, true, false)), (String
                                          ((Ascii (false, false, true, true,
                                          false, true, true, false)), (String
                                          ((Ascii (true, false, true, false,
                                          false, true, true, false)), (String
                                          ((Ascii (true, true, true, true,
                                          true, false, true, false)), (String
                                          ((Ascii (false, false, true, false,
                                          true, true, true, false)), (String
                                          ((Ascii (true, false, false, true,
                                          false, true, true, false)), (String
                                          ((Ascii (true, false, true, true,
                                          false, true, true, false)), (String
                                          ((Ascii (true, false, true, false,
                                          false, true, true, false)), (String
                                          ((Ascii (true, true, true, true,
                                          false, true, true, false)), (String
                                          ((Ascii (true, false, true, false,
                                          true, true, true, false)), (String
                                          ((Ascii (false, false, true, false,
                                          true, true, true, false)),
                                          EmptyString))))))))))))))))))))))))))))))))))))))))))))))
                                          ((dur_val c.idle_timeout) :: [])) :: []))))))))))

(** val parts_view : cstate -> z list -> z -> val0 list **)

let rec parts_view s ps id =
  match ps with
  | [] -> []
  | bref :: r ->
    (vt (String ((Ascii (false, false, false, false, true, true, true,
      false)), EmptyString)) ((VI
      id) :: ((match broker_of s bref with
               | Some b ->
                 vt (String ((Ascii (false, false, true, true, false, true,
                   true, false)), (String ((Ascii (true, false, true, false,
                   false, true, true, false)), (String ((Ascii (true, false,
                   false, false, false, true, true, false)), (String ((Ascii
                   (false, false, true, false, false, true, true, false)),
                   (String ((Ascii (true, false, true, false, false, true,
                   true, false)), (String ((Ascii (false, true, false, false,
                   true, true, true, false)), EmptyString)))))))))))) ((VI
                   b.b_node) :: ((VB b.b_host) :: []))
               | None ->
                 vt (String ((Ascii (false, true, true, true, false, true,
                   true, false)), (String ((Ascii (true, true, true, true,
                   false, true, true, false)), (String ((Ascii (false, false,
                   true, true, false, true, true, false)), (String ((Ascii
                   (true, false, true, false, false, true, true, false)),
                   (String ((Ascii (true, false, false, false, false, true,
                   true, false)), (String ((Ascii (false, false, true, false,
                   false, true, true, false)), (String ((Ascii (true, false,
                   true, false, false, true, true, false)), (String ((Ascii
                   (false, true, false, false, true, true, true, false)),
                   EmptyString)))))))))))))))) []) :: []))) :: (parts_view s
                                                                 r
                                                                 (Z.add id
                                                                   (Zpos XH)))

(** val topics_view : cstate -> val0 **)

let topics_view s =
  VL
    (map (fun pat ->
      let (t0, ps) = pat in
      vt (String ((Ascii (false, false, true, false, true, true, true,
        false)), (String ((Ascii (true, true, true, true, false, true, true,
        false)), (String ((Ascii (false, false, false, false, true, true,
        true, false)), (String ((Ascii (true, false, false, true, false,
        true, true, false)), (String ((Ascii (true, true, false, false,
        false, true, true, false)), EmptyString)))))))))) ((VB t0) :: ((VL
        (parts_view s ps Z0)) :: ((VL
        (map (fun pat0 -> let (id, _) = pat0 in VI id) (leaders_from s ps Z0))) :: []))))
      s.topic_partitions)

(** val po_val : (z * z) -> val0 **)

let po_val p =
  vt (String ((Ascii (false, false, false, false, true, true, true, false)),
    (String ((Ascii (true, true, true, true, false, true, true, false)),
    EmptyString)))) ((VI (fst p)) :: ((VI (snd p)) :: []))

(** val offsets_map_view : (bytes * (z * z) list) list -> val0 **)

let offsets_map_view m0 =
  VL
    (map (fun pat ->
      let (t0, ps) = pat in
      vt (String ((Ascii (false, false, true, false, true, true, true,
        false)), (String ((Ascii (true, true, true, true, false, true, true,
        false)), (String ((Ascii (false, false, false, false, true, true,
        true, false)), (String ((Ascii (true, false, false, true, false,
        true, true, false)), (String ((Ascii (true, true, false, false,
        false, true, true, false)), EmptyString)))))))))) ((VB t0) :: ((VL
        (map po_val ps)) :: []))) m0)

(** val msg_val : message -> val0 **)

let msg_val m0 =
  vt (String ((Ascii (true, false, true, true, false, true, true, false)),
    EmptyString)) ((VI m0.m_offset) :: ((VB m0.m_key) :: ((VB
    m0.m_value) :: [])))

(** val responses_view : fetch_resp list -> val0 **)

let responses_view rs =
  VL
    (map (fun r ->
      vt (String ((Ascii (false, true, false, false, true, true, true,
        false)), (String ((Ascii (true, false, true, false, false, true,
        true, false)), (String ((Ascii (true, true, false, false, true, true,
        true, false)), (String ((Ascii (false, false, false, false, true,
        true, true, false)), EmptyString)))))))) ((VI r.fr_corr) :: ((VL
        (map (fun t0 ->
          vt (String ((Ascii (false, false, true, false, true, true, true,
            false)), (String ((Ascii (true, true, true, true, false, true,
            true, false)), (String ((Ascii (false, false, false, false, true,
            true, true, false)), (String ((Ascii (true, false, false, true,
            false, true, true, false)), (String ((Ascii (true, true, false,
            false, false, true, true, false)), EmptyString)))))))))) ((VB
            t0.ft_topic) :: ((VL
            (map (fun p ->
              vt (String ((Ascii (false, false, false, false, true, true,
                true, false)), (String ((Ascii (true, false, false, false,
                false, true, true, false)), (String ((Ascii (false, true,
                false, false, true, true, true, false)), (String ((Ascii
                (false, false, true, false, true, true, true, false)),
                EmptyString)))))))) ((VI
                p.fp_partition) :: ((match p.fp_data with
                                     | Inl p0 ->
                                       let (hw, ms) = p0 in
                                       vt (String ((Ascii (true, true, true,
                                         true, false, true, true, false)),
                                         (String ((Ascii (true, true, false,
                                         true, false, true, true, false)),
                                         EmptyString)))) ((VI hw) :: ((VL
                                         (map msg_val ms)) :: []))
                                     | Inr c ->
                                       vt (String ((Ascii (true, false, true,
                                         false, false, true, true, false)),
                                         (String ((Ascii (false, true, false,
                                         false, true, true, true, false)),
                                         (String ((Ascii (false, true, false,
                                         false, true, true, true, false)),
                                         EmptyString))))))
                                         ((vt (String ((Ascii (true, true,
                                            false, true, false, true, true,
                                            false)), (String ((Ascii (true,
                                            false, false, false, false, true,
                                            true, false)), (String ((Ascii
                                            (false, true, true, false, false,
                                            true, true, false)), (String
                                            ((Ascii (true, true, false, true,
                                            false, true, true, false)),
                                            (String ((Ascii (true, false,
                                            false, false, false, true, true,
                                            false)), EmptyString))))))))))
                                            ((VI c) :: [])) :: [])) :: [])))
              t0.ft_partitions)) :: []))) r.fr_topics)) :: []))) rs)

(** val confirms_view : confirm list -> val0 **)

let confirms_view cs0 =
  VL
    (map (fun pat ->
      let (t0, ps) = pat in
      vt (String ((Ascii (true, true, false, false, false, true, true,
        false)), (String ((Ascii (true, true, true, true, false, true, true,
        false)), (String ((Ascii (false, true, true, true, false, true, true,
        false)), (String ((Ascii (false, true, true, false, false, true,
        true, false)), (String ((Ascii (true, false, false, true, false,
        true, true, false)), (String ((Ascii (false, true, false, false,
        true, true, true, false)), (String ((Ascii (true, false, true, true,
        false, true, true, false)), EmptyString)))))))))))))) ((VB
        t0) :: ((VL
        (map (fun pat0 ->
          let (p, o) = pat0 in
          vt (String ((Ascii (false, false, false, false, true, true, true,
            false)), (String ((Ascii (true, true, false, false, false, true,
            true, false)), EmptyString)))) ((VI
            p) :: ((match o with
                    | Inl off ->
                      vt (String ((Ascii (true, true, true, true, false,
                        true, true, false)), (String ((Ascii (true, true,
                        false, true, false, true, true, false)),
                        EmptyString)))) ((VI off) :: [])
                    | Inr c ->
                      vt (String ((Ascii (true, false, true, false, false,
                        true, true, false)), (String ((Ascii (false, true,
                        false, false, true, true, true, false)), (String
                        ((Ascii (false, true, false, false, true, true, true,
                        false)), EmptyString)))))) ((VI c) :: [])) :: [])))
          ps)) :: []))) cs0)

(** val messagesets_view : message_sets -> val0 **)

let messagesets_view ms =
  vt (String ((Ascii (true, false, true, true, false, true, true, false)),
    (String ((Ascii (true, true, false, false, true, true, true, false)),
    EmptyString)))) ((vbool ms.ms_empty) :: ((VL
    (map (fun pat ->
      let (y, msgs) = pat in
      let (t0, p) = y in
      vt (String ((Ascii (true, true, false, false, true, true, true,
        false)), (String ((Ascii (true, false, true, false, false, true,
        true, false)), (String ((Ascii (false, false, true, false, true,
        true, true, false)), EmptyString)))))) ((VB t0) :: ((VI p) :: ((VL
        (map msg_val msgs)) :: [])))) (iterate ms))) :: []))

type outcome = { o_result : val0; o_obj : obj; o_trace : ev_op list }

(** val run :
    obj -> client -> codecs -> ev_out list -> val0 -> 'a1 m -> ('a1 -> val0)
    -> ('a1 -> client -> obj) -> (client -> obj) -> outcome **)

let run _ c e sc hv m0 view upd upd_err =
  let s0 = { script = sc; trace = []; anyq =
    (map vbytes (vlist (varg hv (S (S O))))); hostq =
    (map (fun l -> map vbytes (vlist l)) (vlist (varg hv O))); fetchq =
    (map (fun hf -> ((vbytes (varg hf O)),
      (map (fun t0 -> ((vbytes (varg t0 O)),
        (map vint (vlist (varg t0 (S O)))))) (vlist (varg hf (S O))))))
      (vlist (varg hv (S O)))); entryq =
    (map (fun l ->
      map (fun x -> ((vbytes (varg x O)), (vint (varg x (S O))))) (vlist l))
      (vlist (varg hv (S (S (S O)))))); cl = c; env = e }
  in
  let (r, s1) = m0 s0 in
  { o_result =
  (match r with
   | Ok a -> view a
   | Err er ->
     vt (String ((Ascii (true, false, true, false, false, true, true,
       false)), (String ((Ascii (false, true, false, false, true, true, true,
       false)), (String ((Ascii (false, true, false, false, true, true, true,
       false)), EmptyString)))))) ((err_val er) :: [])
   | Panic w ->
     vt (String ((Ascii (false, false, false, false, true, true, true,
       false)), (String ((Ascii (true, false, false, false, false, true,
       true, false)), (String ((Ascii (false, true, true, true, false, true,
       true, false)), (String ((Ascii (true, false, false, true, false, true,
       true, false)), (String ((Ascii (true, true, false, false, false, true,
       true, false)), EmptyString)))))))))) ((VB w) :: [])); o_obj =
  (match r with
   | Ok a -> upd a s1.cl
   | Err _ -> upd_err s1.cl
   | Panic _ -> ONone); o_trace = (rev s1.trace) }

(** val okv : val0 -> val0 **)

let okv v =
  vt (String ((Ascii (true, true, true, true, false, true, true, false)),
    (String ((Ascii (true, true, false, true, false, true, true, false)),
    EmptyString)))) (v :: [])

(** val pure : obj -> val0 -> outcome **)

let pure o v =
  { o_result = v; o_obj = o; o_trace = [] }

(** val ok_unit : val0 **)

let ok_unit =
  vt (String ((Ascii (true, true, true, true, false, true, true, false)),
    (String ((Ascii (true, true, false, true, false, true, true, false)),
    EmptyString)))) (vunit :: [])

(** val set_cfg : obj -> (config -> config) -> outcome **)

let set_cfg o f =
  match client_of o with
  | Some c ->
    pure (with_client o { cfg = (f c.cfg); cs = c.cs; conns = c.conns })
      ok_unit
  | None ->
    pure o
      (vt (String ((Ascii (true, false, true, true, false, true, true,
        false)), (String ((Ascii (true, true, true, true, false, true, true,
        false)), (String ((Ascii (false, false, true, false, false, true,
        true, false)), (String ((Ascii (true, false, true, false, false,
        true, true, false)), (String ((Ascii (false, false, true, true,
        false, true, true, false)), (String ((Ascii (true, true, true, true,
        true, false, true, false)), (String ((Ascii (true, false, true,
        false, false, true, true, false)), (String ((Ascii (false, true,
        false, false, true, true, true, false)), (String ((Ascii (false,
        true, false, false, true, true, true, false)), (String ((Ascii (true,
        true, true, true, false, true, true, false)), (String ((Ascii (false,
        true, false, false, true, true, true, false)),
        EmptyString)))))))))))))))))))))) [])

(** val upd_cfg :
    config -> bytes -> z -> z -> z -> z -> bool -> z -> z -> (z * z) -> config **)

let upd_cfg c cid comp wait minb maxb crc stor att idle =
  { client_id = cid; hosts = c.hosts; compression = comp;
    fetch_max_wait_time = wait; fetch_min_bytes = minb;
    fetch_max_bytes_per_partition = maxb; fetch_crc_validation = crc;
    offset_storage = stor; retry_backoff_time = c.retry_backoff_time;
    retry_max_attempts = att; idle_timeout = idle }

(** val fq_of : val0 -> fetch_partition **)

let fq_of v =
  { fq_topic = (vbytes (varg v O)); fq_partition = (vint (varg v (S O)));
    fq_offset = (vint (varg v (S (S O)))); fq_max_bytes =
    (vint (varg v (S (S (S O))))) }

(** val pq_of : val0 -> produce_message **)

let pq_of v =
  { pq_topic = (vbytes (varg v O)); pq_partition = (vint (varg v (S O)));
    pq_key = (opt_of (varg v (S (S O)))); pq_value =
    (opt_of (varg v (S (S (S O))))) }

(** val co_of : val0 -> commit_offset **)

let co_of v =
  { co_topic = (vbytes (varg v O)); co_partition = (vint (varg v (S O)));
    co_offset = (vint (varg v (S (S O)))) }

(** val rec_of : val0 -> record **)

let rec_of v =
  { r_topic = (vbytes (varg v O)); r_partition = (vint (varg v (S O)));
    r_key = (vbytes (varg v (S (S O)))); r_value =
    (vbytes (varg v (S (S (S O))))) }

(** val builder_call_of : val0 -> cbuilder_call **)

let builder_call_of v =
  if is_tag v (String ((Ascii (true, true, true, false, true, true, true,
       false)), (String ((Ascii (true, false, false, true, false, true, true,
       false)), (String ((Ascii (false, false, true, false, true, true, true,
       false)), (String ((Ascii (false, false, false, true, false, true,
       true, false)), (String ((Ascii (true, true, true, true, true, false,
       true, false)), (String ((Ascii (true, true, true, false, false, true,
       true, false)), (String ((Ascii (false, true, false, false, true, true,
       true, false)), (String ((Ascii (true, true, true, true, false, true,
       true, false)), (String ((Ascii (true, false, true, false, true, true,
       true, false)), (String ((Ascii (false, false, false, false, true,
       true, true, false)), EmptyString))))))))))))))))))))
  then CWithGroup (vbytes (varg v O))
  else if is_tag v (String ((Ascii (true, true, true, false, true, true,
            true, false)), (String ((Ascii (true, false, false, true, false,
            true, true, false)), (String ((Ascii (false, false, true, false,
            true, true, true, false)), (String ((Ascii (false, false, false,
            true, false, true, true, false)), (String ((Ascii (true, true,
            true, true, true, false, true, false)), (String ((Ascii (false,
            false, true, false, true, true, true, false)), (String ((Ascii
            (true, true, true, true, false, true, true, false)), (String
            ((Ascii (false, false, false, false, true, true, true, false)),
            (String ((Ascii (true, false, false, true, false, true, true,
            false)), (String ((Ascii (true, true, false, false, false, true,
            true, false)), EmptyString))))))))))))))))))))
       then CWithTopic (vbytes (varg v O))
       else if is_tag v (String ((Ascii (true, true, true, false, true, true,
                 true, false)), (String ((Ascii (true, false, false, true,
                 false, true, true, false)), (String ((Ascii (false, false,
                 true, false, true, true, true, false)), (String ((Ascii
                 (false, false, false, true, false, true, true, false)),
                 (String ((Ascii (true, true, true, true, true, false, true,
                 false)), (String ((Ascii (false, false, true, false, true,
                 true, true, false)), (String ((Ascii (true, true, true,
                 true, false, true, true, false)), (String ((Ascii (false,
                 false, false, false, true, true, true, false)), (String
                 ((Ascii (true, false, false, true, false, true, true,
                 false)), (String ((Ascii (true, true, false, false, false,
                 true, true, false)), (String ((Ascii (true, true, true,
                 true, true, false, true, false)), (String ((Ascii (false,
                 false, false, false, true, true, true, false)), (String
                 ((Ascii (true, false, false, false, false, true, true,
                 false)), (String ((Ascii (false, true, false, false, true,
                 true, true, false)), (String ((Ascii (false, false, true,
                 false, true, true, true, false)), (String ((Ascii (true,
                 false, false, true, false, true, true, false)), (String
                 ((Ascii (false, false, true, false, true, true, true,
                 false)), (String ((Ascii (true, false, false, true, false,
                 true, true, false)), (String ((Ascii (true, true, true,
                 true, false, true, true, false)), (String ((Ascii (false,
                 true, true, true, false, true, true, false)), (String
                 ((Ascii (true, true, false, false, true, true, true,
                 false)),
                 EmptyString))))))))))))))))))))))))))))))))))))))))))
            then CWithTopicPartitions ((vbytes (varg v O)),
                   (map vint (vlist (varg v (S O)))))
            else if is_tag v (String ((Ascii (true, true, true, false, true,
                      true, true, false)), (String ((Ascii (true, false,
                      false, true, false, true, true, false)), (String
                      ((Ascii (false, false, true, false, true, true, true,
                      false)), (String ((Ascii (false, false, false, true,
                      false, true, true, false)), (String ((Ascii (true,
                      true, true, true, true, false, true, false)), (String
                      ((Ascii (false, true, true, false, false, true, true,
                      false)), (String ((Ascii (true, false, false, false,
                      false, true, true, false)), (String ((Ascii (false,
                      false, true, true, false, true, true, false)), (String
                      ((Ascii (false, false, true, true, false, true, true,
                      false)), (String ((Ascii (false, true, false, false,
                      false, true, true, false)), (String ((Ascii (true,
                      false, false, false, false, true, true, false)),
                      (String ((Ascii (true, true, false, false, false, true,
                      true, false)), (String ((Ascii (true, true, false,
                      true, false, true, true, false)), (String ((Ascii
                      (true, true, true, true, true, false, true, false)),
                      (String ((Ascii (true, true, true, true, false, true,
                      true, false)), (String ((Ascii (false, true, true,
                      false, false, true, true, false)), (String ((Ascii
                      (false, true, true, false, false, true, true, false)),
                      (String ((Ascii (true, true, false, false, true, true,
                      true, false)), (String ((Ascii (true, false, true,
                      false, false, true, true, false)), (String ((Ascii
                      (false, false, true, false, true, true, true, false)),
                      EmptyString))))))))))))))))))))))))))))))))))))))))
                 then let a = varg v O in
                      CWithFallback
                      (if is_tag a (String ((Ascii (true, false, true, false,
                            false, true, true, false)), (String ((Ascii
                            (true, false, false, false, false, true, true,
                            false)), (String ((Ascii (false, true, false,
                            false, true, true, true, false)), (String ((Ascii
                            (false, false, true, true, false, true, true,
                            false)), (String ((Ascii (true, false, false,
                            true, false, true, true, false)), (String ((Ascii
                            (true, false, true, false, false, true, true,
                            false)), (String ((Ascii (true, true, false,
                            false, true, true, true, false)), (String ((Ascii
                            (false, false, true, false, true, true, true,
                            false)), EmptyString))))))))))))))))
                       then FbEarliest
                       else if is_tag a (String ((Ascii (false, false, true,
                                 true, false, true, true, false)), (String
                                 ((Ascii (true, false, false, false, false,
                                 true, true, false)), (String ((Ascii (false,
                                 false, true, false, true, true, true,
                                 false)), (String ((Ascii (true, false, true,
                                 false, false, true, true, false)), (String
                                 ((Ascii (true, true, false, false, true,
                                 true, true, false)), (String ((Ascii (false,
                                 false, true, false, true, true, true,
                                 false)), EmptyString))))))))))))
                            then FbLatest
                            else FbByTime (vint (varg a O)))
                 else if is_tag v (String ((Ascii (true, true, true, false,
                           true, true, true, false)), (String ((Ascii (true,
                           false, false, true, false, true, true, false)),
                           (String ((Ascii (false, false, true, false, true,
                           true, true, false)), (String ((Ascii (false,
                           false, false, true, false, true, true, false)),
                           (String ((Ascii (true, true, true, true, true,
                           false, true, false)), (String ((Ascii (false,
                           true, true, false, false, true, true, false)),
                           (String ((Ascii (true, false, true, false, false,
                           true, true, false)), (String ((Ascii (false,
                           false, true, false, true, true, true, false)),
                           (String ((Ascii (true, true, false, false, false,
                           true, true, false)), (String ((Ascii (false,
                           false, false, true, false, true, true, false)),
                           (String ((Ascii (true, true, true, true, true,
                           false, true, false)), (String ((Ascii (true,
                           false, true, true, false, true, true, false)),
                           (String ((Ascii (true, false, false, false, false,
                           true, true, false)), (String ((Ascii (false,
                           false, false, true, true, true, true, false)),
                           (String ((Ascii (true, true, true, true, true,
                           false, true, false)), (String ((Ascii (true, true,
                           true, false, true, true, true, false)), (String
                           ((Ascii (true, false, false, false, false, true,
                           true, false)), (String ((Ascii (true, false,
                           false, true, false, true, true, false)), (String
                           ((Ascii (false, false, true, false, true, true,
                           true, false)), (String ((Ascii (true, true, true,
                           true, true, false, true, false)), (String ((Ascii
                           (false, false, true, false, true, true, true,
                           false)), (String ((Ascii (true, false, false,
                           true, false, true, true, false)), (String ((Ascii
                           (true, false, true, true, false, true, true,
                           false)), (String ((Ascii (true, false, true,
                           false, false, true, true, false)),
                           EmptyString))))))))))))))))))))))))))))))))))))))))))))))))
                      then CWithMaxWait ((vint (varg v O)),
                             (vint (varg v (S O))))
                      else if is_tag v (String ((Ascii (true, true, true,
                                false, true, true, true, false)), (String
                                ((Ascii (true, false, false, true, false,
                                true, true, false)), (String ((Ascii (false,
                                false, true, false, true, true, true,
                                false)), (String ((Ascii (false, false,
                                false, true, false, true, true, false)),
                                (String ((Ascii (true, true, true, true,
                                true, false, true, false)), (String ((Ascii
                                (false, true, true, false, false, true, true,
                                false)), (String ((Ascii (true, false, true,
                                false, false, true, true, false)), (String
                                ((Ascii (false, false, true, false, true,
                                true, true, false)), (String ((Ascii (true,
                                true, false, false, false, true, true,
                                false)), (String ((Ascii (false, false,
                                false, true, false, true, true, false)),
                                (String ((Ascii (true, true, true, true,
                                true, false, true, false)), (String ((Ascii
                                (true, false, true, true, false, true, true,
                                false)), (String ((Ascii (true, false, false,
                                true, false, true, true, false)), (String
                                ((Ascii (false, true, true, true, false,
                                true, true, false)), (String ((Ascii (true,
                                true, true, true, true, false, true, false)),
                                (String ((Ascii (false, true, false, false,
                                false, true, true, false)), (String ((Ascii
                                (true, false, false, true, true, true, true,
                                false)), (String ((Ascii (false, false, true,
                                false, true, true, true, false)), (String
                                ((Ascii (true, false, true, false, false,
                                true, true, false)), (String ((Ascii (true,
                                true, false, false, true, true, true,
                                false)),
                                EmptyString))))))))))))))))))))))))))))))))))))))))
                           then CWithMinBytes (vint (varg v O))
                           else if is_tag v (String ((Ascii (true, true,
                                     true, false, true, true, true, false)),
                                     (String ((Ascii (true, false, false,
                                     true, false, true, true, false)),
                                     (String ((Ascii (false, false, true,
                                     false, true, true, true, false)),
                                     (String ((Ascii (false, false, false,
                                     true, false, true, true, false)),
                                     (String ((Ascii (true, true, true, true,
                                     true, false, true, false)), (String
                                     ((Ascii (false, true, true, false,
                                     false, true, true, false)), (String
                                     ((Ascii (true, false, true, false,
                                     false, true, true, false)), (String
                                     ((Ascii (false, false, true, false,
                                     true, true, true, false)), (String
                                     ((Ascii (true, true, false, false,
                                     false, true, true, false)), (String
                                     ((Ascii (false, false, false, true,
                                     false, true, true, false)), (String
                                     ((Ascii (true, true, true, true, true,
                                     false, true, false)), (String ((Ascii
                                     (true, false, true, true, false, true,
                                     true, false)), (String ((Ascii (true,
                                     false, false, false, false, true, true,
                                     false)), (String ((Ascii (false, false,
                                     false, true, true, true, true, false)),
                                     (String ((Ascii (true, true, true, true,
                                     true, false, true, false)), (String
                                     ((Ascii (false, true, false, false,
                                     false, true, true, false)), (String
                                     ((Ascii (true, false, false, true, true,
                                     true, true, false)), (String ((Ascii
                                     (false, false, true, false, true, true,
                                     true, false)), (String ((Ascii (true,
                                     false, true, false, false, true, true,
                                     false)), (String ((Ascii (true, true,
                                     false, false, true, true, true, false)),
                                     (String ((Ascii (true, true, true, true,
                                     true, false, true, false)), (String
                                     ((Ascii (false, false, false, false,
                                     true, true, true, false)), (String
                                     ((Ascii (true, false, true, false,
                                     false, true, true, false)), (String
                                     ((Ascii (false, true, false, false,
                                     true, true, true, false)), (String
                                     ((Ascii (true, true, true, true, true,
                                     false, true, false)), (String ((Ascii
                                     (false, false, false, false, true, true,
                                     true, false)), (String ((Ascii (true,
                                     false, false, false, false, true, true,
                                     false)), (String ((Ascii (false, true,
                                     false, false, true, true, true, false)),
                                     (String ((Ascii (false, false, true,
                                     false, true, true, true, false)),
                                     (String ((Ascii (true, false, false,
                                     true, false, true, true, false)),
                                     (String ((Ascii (false, false, true,
                                     false, true, true, true, false)),
                                     (String ((Ascii (true, false, false,
                                     true, false, true, true, false)),
                                     (String ((Ascii (true, true, true, true,
                                     false, true, true, false)), (String
                                     ((Ascii (false, true, true, true, false,
                                     true, true, false)),
                                     EmptyString))))))))))))))))))))))))))))))))))))))))))))))))))))))))))))))))))))
                                then CWithMaxBytes (vint (varg v O))
                                else if is_tag v (String ((Ascii (true, true,
                                          true, false, true, true, true,
                                          false)), (String ((Ascii (true,
                                          false, false, true, false, true,
                                          true, false)), (String ((Ascii
                                          (false, false, true, false, true,
                                          true, true, false)), (String
                                          ((Ascii (false, false, false, true,
                                          false, true, true, false)), (String
                                          ((Ascii (true, true, true, true,
                                          true, false, true, false)), (String
                                          ((Ascii (false, true, true, false,
                                          false, true, true, false)), (String
                                          ((Ascii (true, false, true, false,
                                          false, true, true, false)), (String
                                          ((Ascii (false, false, true, false,
                                          true, true, true, false)), (String
                                          ((Ascii (true, true, false, false,
                                          false, true, true, false)), (String
                                          ((Ascii (false, false, false, true,
                                          false, true, true, false)), (String
                                          ((Ascii (true, true, true, true,
                                          true, false, true, false)), (String
                                          ((Ascii (true, true, false, false,
                                          false, true, true, false)), (String
                                          ((Ascii (false, true, false, false,
                                          true, true, true, false)), (String
                                          ((Ascii (true, true, false, false,
                                          false, true, true, false)), (String
                                          ((Ascii (true, true, true, true,
                                          true, false, true, false)), (String
                                          ((Ascii (false, true, true, false,
                                          true, true, true, false)), (String
                                          ((Ascii (true, false, false, false,
                                          false, true, true, false)), (String
                                          ((Ascii (false, false, true, true,
                                          false, true, true, false)), (String
                                          ((Ascii (true, false, false, true,
                                          false, true, true, false)), (String
                                          ((Ascii (false, false, true, false,
                                          false, true, true, false)), (String
                                          ((Ascii (true, false, false, false,
                                          false, true, true, false)), (String
                                          ((Ascii (false, false, true, false,
                                          true, true, true, false)), (String
                                          ((Ascii (true, false, false, true,
                                          false, true, true, false)), (String
                                          ((Ascii (true, true, true, true,
                                          false, true, true, false)), (String
                                          ((Ascii (false, true, true, true,
                                          false, true, true, false)),
                                          EmptyString))))))))))))))))))))))))))))))))))))))))))))))))))
                                     then CWithCrc
                                            (negb
                                              (Z.eqb (vint (varg v O)) Z0))
                                     else if is_tag v (String ((Ascii (true,
                                               true, true, false, true, true,
                                               true, false)), (String ((Ascii
                                               (true, false, false, true,
                                               false, true, true, false)),
                                               (String ((Ascii (false, false,
                                               true, false, true, true, true,
                                               false)), (String ((Ascii
                                               (false, false, false, true,
                                               false, true, true, false)),
                                               (String ((Ascii (true, true,
                                               true, true, true, false, true,
                                               false)), (String ((Ascii
                                               (true, true, true, true,
                                               false, true, true, false)),
                                               (String ((Ascii (false, true,
                                               true, false, false, true,
                                               true, false)), (String ((Ascii
                                               (false, true, true, false,
                                               false, true, true, false)),
                                               (String ((Ascii (true, true,
                                               false, false, true, true,
                                               true, false)), (String ((Ascii
                                               (true, false, true, false,
                                               false, true, true, false)),
                                               (String ((Ascii (false, false,
                                               true, false, true, true, true,
                                               false)), (String ((Ascii
                                               (true, true, true, true, true,
                                               false, true, false)), (String
                                               ((Ascii (true, true, false,
                                               false, true, true, true,
                                               false)), (String ((Ascii
                                               (false, false, true, false,
                                               true, true, true, false)),
                                               (String ((Ascii (true, true,
                                               true, true, false, true, true,
                                               false)), (String ((Ascii
                                               (false, true, false, false,
                                               true, true, true, false)),
                                               (String ((Ascii (true, false,
                                               false, false, false, true,
                                               true, false)), (String ((Ascii
                                               (true, true, true, false,
                                               false, true, true, false)),
                                               (String ((Ascii (true, false,
                                               true, false, false, true,
                                               true, false)),
                                               EmptyString))))))))))))))))))))))))))))))))))))))
                                          then CWithStorage (vint (varg v O))
                                          else if is_tag v (String ((Ascii
                                                    (true, true, true, false,
                                                    true, true, true,
                                                    false)), (String ((Ascii
                                                    (true, false, false,
                                                    true, false, true, true,
                                                    false)), (String ((Ascii
                                                    (false, false, true,
                                                    false, true, true, true,
                                                    false)), (String ((Ascii
                                                    (false, false, false,
                                                    true, false, true, true,
                                                    false)), (String ((Ascii
                                                    (true, true, true, true,
                                                    true, false, true,
                                                    false)), (String ((Ascii
                                                    (false, true, false,
                                                    false, true, true, true,
                                                    false)), (String ((Ascii
                                                    (true, false, true,
                                                    false, false, true, true,
                                                    false)), (String ((Ascii
                                                    (false, false, true,
                                                    false, true, true, true,
                                                    false)), (String ((Ascii
                                                    (false, true, false,
                                                    false, true, true, true,
                                                    false)), (String ((Ascii
                                                    (true, false, false,
                                                    true, true, true, true,
                                                    false)), (String ((Ascii
                                                    (true, true, true, true,
                                                    true, false, true,
                                                    false)), (String ((Ascii
                                                    (true, false, true, true,
                                                    false, true, true,
                                                    false)), (String ((Ascii
                                                    (true, false, false,
                                                    false, false, true, true,
                                                    false)), (String ((Ascii
                                                    (false, false, false,
                                                    true, true, true, true,
                                                    false)), (String ((Ascii
                                                    (true, true, true, true,
                                                    true, false, true,
                                                    false)), (String ((Ascii
                                                    (false, true, false,
                                                    false, false, true, true,
                                                    false)), (String ((Ascii
                                                    (true, false, false,
                                                    true, true, true, true,
                                                    false)), (String ((Ascii
                                                    (false, false, true,
                                                    false, true, true, true,
                                                    false)), (String ((Ascii
                                                    (true, false, true,
                                                    false, false, true, true,
                                                    false)), (String ((Ascii
                                                    (true, true, false,
                                                    false, true, true, true,
                                                    false)), (String ((Ascii
                                                    (true, true, true, true,
                                                    true, false, true,
                                                    false)), (String ((Ascii
                                                    (false, false, true,
                                                    true, false, true, true,
                                                    false)), (String ((Ascii
                                                    (true, false, false,
                                                    true, false, true, true,
                                                    false)), (String ((Ascii
                                                    (true, false, true, true,
                                                    false, true, true,
                                                    false)), (String ((Ascii
                                                    (true, false, false,
                                                    true, false, true, true,
                                                    false)), (String ((Ascii
                                                    (false, false, true,
                                                    false, true, true, true,
                                                    false)),
                                                    EmptyString))))))))))))))))))))))))))))))))))))))))))))))))))))
                                               then CWithRetryLimit
                                                      (vint (varg v O))
                                               else if is_tag v (String
                                                         ((Ascii (true, true,
                                                         true, false, true,
                                                         true, true, false)),
                                                         (String ((Ascii
                                                         (true, false, false,
                                                         true, false, true,
                                                         true, false)),
                                                         (String ((Ascii
                                                         (false, false, true,
                                                         false, true, true,
                                                         true, false)),
                                                         (String ((Ascii
                                                         (false, false,
                                                         false, true, false,
                                                         true, true, false)),
                                                         (String ((Ascii
                                                         (true, true, true,
                                                         true, true, false,
                                                         true, false)),
                                                         (String ((Ascii
                                                         (true, true, false,
                                                         false, false, true,
                                                         true, false)),
                                                         (String ((Ascii
                                                         (true, true, true,
                                                         true, false, true,
                                                         true, false)),
                                                         (String ((Ascii
                                                         (false, true, true,
                                                         true, false, true,
                                                         true, false)),
                                                         (String ((Ascii
                                                         (false, true, true,
                                                         true, false, true,
                                                         true, false)),
                                                         (String ((Ascii
                                                         (true, false, true,
                                                         false, false, true,
                                                         true, false)),
                                                         (String ((Ascii
                                                         (true, true, false,
                                                         false, false, true,
                                                         true, false)),
                                                         (String ((Ascii
                                                         (false, false, true,
                                                         false, true, true,
                                                         true, false)),
                                                         (String ((Ascii
                                                         (true, false, false,
                                                         true, false, true,
                                                         true, false)),
                                                         (String ((Ascii
                                                         (true, true, true,
                                                         true, false, true,
                                                         true, false)),
                                                         (String ((Ascii
                                                         (false, true, true,
                                                         true, false, true,
                                                         true, false)),
                                                         (String ((Ascii
                                                         (true, true, true,
                                                         true, true, false,
                                                         true, false)),
                                                         (String ((Ascii
                                                         (true, false, false,
                                                         true, false, true,
                                                         true, false)),
                                                         (String ((Ascii
                                                         (false, false, true,
                                                         false, false, true,
                                                         true, false)),
                                                         (String ((Ascii
                                                         (false, false, true,
                                                         true, false, true,
                                                         true, false)),
                                                         (String ((Ascii
                                                         (true, false, true,
                                                         false, false, true,
                                                         true, false)),
                                                         (String ((Ascii
                                                         (true, true, true,
                                                         true, true, false,
                                                         true, false)),
                                                         (String ((Ascii
                                                         (false, false, true,
                                                         false, true, true,
                                                         true, false)),
                                                         (String ((Ascii
                                                         (true, false, false,
                                                         true, false, true,
                                                         true, false)),
                                                         (String ((Ascii
                                                         (true, false, true,
                                                         true, false, true,
                                                         true, false)),
                                                         (String ((Ascii
                                                         (true, false, true,
                                                         false, false, true,
                                                         true, false)),
                                                         (String ((Ascii
                                                         (true, true, true,
                                                         true, false, true,
                                                         true, false)),
                                                         (String ((Ascii
                                                         (true, false, true,
                                                         false, true, true,
                                                         true, false)),
                                                         (String ((Ascii
                                                         (false, false, true,
                                                         false, true, true,
                                                         true, false)),
                                                         EmptyString))))))))))))))))))))))))))))))))))))))))))))))))))))))))
                                                    then CWithIdle
                                                           ((vint (varg v O)),
                                                           (vint
                                                             (varg v (S O))))
                                                    else CWithClientId
                                                           (vbytes (varg v O))

(** val pbuilder_call_of : val0 -> pbuilder_call **)

let pbuilder_call_of v =
  if is_tag v (String ((Ascii (true, true, true, false, true, true, true,
       false)), (String ((Ascii (true, false, false, true, false, true, true,
       false)), (String ((Ascii (false, false, true, false, true, true, true,
       false)), (String ((Ascii (false, false, false, true, false, true,
       true, false)), (String ((Ascii (true, true, true, true, true, false,
       true, false)), (String ((Ascii (true, true, false, false, false, true,
       true, false)), (String ((Ascii (true, true, true, true, false, true,
       true, false)), (String ((Ascii (true, false, true, true, false, true,
       true, false)), (String ((Ascii (false, false, false, false, true,
       true, true, false)), (String ((Ascii (false, true, false, false, true,
       true, true, false)), (String ((Ascii (true, false, true, false, false,
       true, true, false)), (String ((Ascii (true, true, false, false, true,
       true, true, false)), (String ((Ascii (true, true, false, false, true,
       true, true, false)), (String ((Ascii (true, false, false, true, false,
       true, true, false)), (String ((Ascii (true, true, true, true, false,
       true, true, false)), (String ((Ascii (false, true, true, true, false,
       true, true, false)), EmptyString))))))))))))))))))))))))))))))))
  then PWithCompression (vint (varg v O))
  else if is_tag v (String ((Ascii (true, true, true, false, true, true,
            true, false)), (String ((Ascii (true, false, false, true, false,
            true, true, false)), (String ((Ascii (false, false, true, false,
            true, true, true, false)), (String ((Ascii (false, false, false,
            true, false, true, true, false)), (String ((Ascii (true, true,
            true, true, true, false, true, false)), (String ((Ascii (true,
            false, false, false, false, true, true, false)), (String ((Ascii
            (true, true, false, false, false, true, true, false)), (String
            ((Ascii (true, true, false, true, false, true, true, false)),
            (String ((Ascii (true, true, true, true, true, false, true,
            false)), (String ((Ascii (false, false, true, false, true, true,
            true, false)), (String ((Ascii (true, false, false, true, false,
            true, true, false)), (String ((Ascii (true, false, true, true,
            false, true, true, false)), (String ((Ascii (true, false, true,
            false, false, true, true, false)), (String ((Ascii (true, true,
            true, true, false, true, true, false)), (String ((Ascii (true,
            false, true, false, true, true, true, false)), (String ((Ascii
            (false, false, true, false, true, true, true, false)),
            EmptyString))))))))))))))))))))))))))))))))
       then PWithAckTimeout ((vint (varg v O)), (vint (varg v (S O))))
       else if is_tag v (String ((Ascii (true, true, true, false, true, true,
                 true, false)), (String ((Ascii (true, false, false, true,
                 false, true, true, false)), (String ((Ascii (false, false,
                 true, false, true, true, true, false)), (String ((Ascii
                 (false, false, false, true, false, true, true, false)),
                 (String ((Ascii (true, true, true, true, true, false, true,
                 false)), (String ((Ascii (true, true, false, false, false,
                 true, true, false)), (String ((Ascii (true, true, true,
                 true, false, true, true, false)), (String ((Ascii (false,
                 true, true, true, false, true, true, false)), (String
                 ((Ascii (false, true, true, true, false, true, true,
                 false)), (String ((Ascii (true, false, true, false, false,
                 true, true, false)), (String ((Ascii (true, true, false,
                 false, false, true, true, false)), (String ((Ascii (false,
                 false, true, false, true, true, true, false)), (String
                 ((Ascii (true, false, false, true, false, true, true,
                 false)), (String ((Ascii (true, true, true, true, false,
                 true, true, false)), (String ((Ascii (false, true, true,
                 true, false, true, true, false)), (String ((Ascii (true,
                 true, true, true, true, false, true, false)), (String
                 ((Ascii (true, false, false, true, false, true, true,
                 false)), (String ((Ascii (false, false, true, false, false,
                 true, true, false)), (String ((Ascii (false, false, true,
                 true, false, true, true, false)), (String ((Ascii (true,
                 false, true, false, false, true, true, false)), (String
                 ((Ascii (true, true, true, true, true, false, true, false)),
                 (String ((Ascii (false, false, true, false, true, true,
                 true, false)), (String ((Ascii (true, false, false, true,
                 false, true, true, false)), (String ((Ascii (true, false,
                 true, true, false, true, true, false)), (String ((Ascii
                 (true, false, true, false, false, true, true, false)),
                 (String ((Ascii (true, true, true, true, false, true, true,
                 false)), (String ((Ascii (true, false, true, false, true,
                 true, true, false)), (String ((Ascii (false, false, true,
                 false, true, true, true, false)),
                 EmptyString))))))))))))))))))))))))))))))))))))))))))))))))))))))))
            then PWithIdle ((vint (varg v O)), (vint (varg v (S O))))
            else if is_tag v (String ((Ascii (true, true, true, false, true,
                      true, true, false)), (String ((Ascii (true, false,
                      false, true, false, true, true, false)), (String
                      ((Ascii (false, false, true, false, true, true, true,
                      false)), (String ((Ascii (false, false, false, true,
                      false, true, true, false)), (String ((Ascii (true,
                      true, true, true, true, false, true, false)), (String
                      ((Ascii (false, true, false, false, true, true, true,
                      false)), (String ((Ascii (true, false, true, false,
                      false, true, true, false)), (String ((Ascii (true,
                      false, false, false, true, true, true, false)), (String
                      ((Ascii (true, false, true, false, true, true, true,
                      false)), (String ((Ascii (true, false, false, true,
                      false, true, true, false)), (String ((Ascii (false,
                      true, false, false, true, true, true, false)), (String
                      ((Ascii (true, false, true, false, false, true, true,
                      false)), (String ((Ascii (false, false, true, false,
                      false, true, true, false)), (String ((Ascii (true,
                      true, true, true, true, false, true, false)), (String
                      ((Ascii (true, false, false, false, false, true, true,
                      false)), (String ((Ascii (true, true, false, false,
                      false, true, true, false)), (String ((Ascii (true,
                      true, false, true, false, true, true, false)), (String
                      ((Ascii (true, true, false, false, true, true, true,
                      false)), EmptyString))))))))))))))))))))))))))))))))))))
                 then PWithAcks (vint (varg v O))
                 else if is_tag v (String ((Ascii (true, true, true, false,
                           true, true, true, false)), (String ((Ascii (true,
                           false, false, true, false, true, true, false)),
                           (String ((Ascii (false, false, true, false, true,
                           true, true, false)), (String ((Ascii (false,
                           false, false, true, false, true, true, false)),
                           (String ((Ascii (true, true, true, true, true,
                           false, true, false)), (String ((Ascii (true, true,
                           false, false, false, true, true, false)), (String
                           ((Ascii (false, false, true, true, false, true,
                           true, false)), (String ((Ascii (true, false,
                           false, true, false, true, true, false)), (String
                           ((Ascii (true, false, true, false, false, true,
                           true, false)), (String ((Ascii (false, true, true,
                           true, false, true, true, false)), (String ((Ascii
                           (false, false, true, false, true, true, true,
                           false)), (String ((Ascii (true, true, true, true,
                           true, false, true, false)), (String ((Ascii (true,
                           false, false, true, false, true, true, false)),
                           (String ((Ascii (false, false, true, false, false,
                           true, true, false)),
                           EmptyString))))))))))))))))))))))))))))
                      then PWithClientId (vbytes (varg v O))
                      else PWithPartitioner

(** val keep_client : obj -> 'a1 -> client -> obj **)

let keep_client o _ c =
  with_client o c

(** val dispatch : obj -> val0 -> val0 -> val0 -> val0 -> outcome **)

let dispatch o op hv scv ev =
  let sc = map ev_out_of (vlist scv) in
  let e = env_of ev in
  let a0 = varg op O in
  let a1 = varg op (S O) in
  let a2 = varg op (S (S O)) in
  let a3 = varg op (S (S (S O))) in
  let cm = fun m0 view ->
    match client_of o with
    | Some c ->
      run o c e sc hv m0 (fun a -> okv (view a)) (keep_client o)
        (with_client o)
    | None ->
      pure o
        (vt (String ((Ascii (true, false, true, true, false, true, true,
          false)), (String ((Ascii (true, true, true, true, false, true,
          true, false)), (String ((Ascii (false, false, true, false, false,
          true, true, false)), (String ((Ascii (true, false, true, false,
          false, true, true, false)), (String ((Ascii (false, false, true,
          true, false, true, true, false)), (String ((Ascii (true, true,
          true, true, true, false, true, false)), (String ((Ascii (true,
          false, true, false, false, true, true, false)), (String ((Ascii
          (false, true, false, false, true, true, true, false)), (String
          ((Ascii (false, true, false, false, true, true, true, false)),
          (String ((Ascii (true, true, true, true, false, true, true,
          false)), (String ((Ascii (false, true, false, false, true, true,
          true, false)), EmptyString)))))))))))))))))))))) [])
  in
  if is_tag op (String ((Ascii (false, false, true, false, false, true, true,
       false)), (String ((Ascii (false, true, false, false, true, true, true,
       false)), (String ((Ascii (true, true, true, true, false, true, true,
       false)), (String ((Ascii (false, false, false, false, true, true,
       true, false)), EmptyString))))))))
  then pure ONone ok_unit
  else if is_tag op (String ((Ascii (true, true, false, false, false, true,
            true, false)), (String ((Ascii (false, false, true, true, false,
            true, true, false)), (String ((Ascii (true, false, false, true,
            false, true, true, false)), (String ((Ascii (true, false, true,
            false, false, true, true, false)), (String ((Ascii (false, true,
            true, true, false, true, true, false)), (String ((Ascii (false,
            false, true, false, true, true, true, false)), (String ((Ascii
            (true, true, true, true, true, false, true, false)), (String
            ((Ascii (false, true, true, true, false, true, true, false)),
            (String ((Ascii (true, false, true, false, false, true, true,
            false)), (String ((Ascii (true, true, true, false, true, true,
            true, false)), EmptyString))))))))))))))))))))
       then let c = client_new (map vbytes (vlist a0)) in
            pure (OClient { cfg =
              (let g = c.cfg in
               { client_id = g.client_id; hosts = g.hosts; compression =
               g.compression; fetch_max_wait_time = g.fetch_max_wait_time;
               fetch_min_bytes = g.fetch_min_bytes;
               fetch_max_bytes_per_partition =
               g.fetch_max_bytes_per_partition; fetch_crc_validation =
               g.fetch_crc_validation; offset_storage = g.offset_storage;
               retry_backoff_time = (Z0, Z0); retry_max_attempts =
               g.retry_max_attempts; idle_timeout = g.idle_timeout }); cs =
              c.cs; conns = c.conns }) ok_unit
       else if is_tag op (String ((Ascii (true, false, false, true, false,
                 true, true, false)), (String ((Ascii (false, true, true,
                 true, false, true, true, false)), (String ((Ascii (false,
                 false, true, false, true, true, true, false)), (String
                 ((Ascii (true, true, true, true, false, true, true, false)),
                 (String ((Ascii (true, true, true, true, true, false, true,
                 false)), (String ((Ascii (true, true, false, false, false,
                 true, true, false)), (String ((Ascii (false, false, true,
                 true, false, true, true, false)), (String ((Ascii (true,
                 false, false, true, false, true, true, false)), (String
                 ((Ascii (true, false, true, false, false, true, true,
                 false)), (String ((Ascii (false, true, true, true, false,
                 true, true, false)), (String ((Ascii (false, false, true,
                 false, true, true, true, false)),
                 EmptyString))))))))))))))))))))))
            then pure
                   (match client_of o with
                    | Some c -> OClient c
                    | None -> ONone) ok_unit
            else if is_tag op (String ((Ascii (true, true, false, false,
                      true, true, true, false)), (String ((Ascii (true,
                      false, true, false, false, true, true, false)), (String
                      ((Ascii (false, false, true, false, true, true, true,
                      false)), (String ((Ascii (true, true, true, true, true,
                      false, true, false)), (String ((Ascii (true, true,
                      false, false, false, true, true, false)), (String
                      ((Ascii (false, false, true, true, false, true, true,
                      false)), (String ((Ascii (true, false, false, true,
                      false, true, true, false)), (String ((Ascii (true,
                      false, true, false, false, true, true, false)), (String
                      ((Ascii (false, true, true, true, false, true, true,
                      false)), (String ((Ascii (false, false, true, false,
                      true, true, true, false)), (String ((Ascii (true, true,
                      true, true, true, false, true, false)), (String ((Ascii
                      (true, false, false, true, false, true, true, false)),
                      (String ((Ascii (false, false, true, false, false,
                      true, true, false)),
                      EmptyString))))))))))))))))))))))))))
                 then set_cfg o (fun c ->
                        upd_cfg c (vbytes a0) c.compression
                          c.fetch_max_wait_time c.fetch_min_bytes
                          c.fetch_max_bytes_per_partition
                          c.fetch_crc_validation c.offset_storage
                          c.retry_max_attempts c.idle_timeout)
                 else if is_tag op (String ((Ascii (true, true, false, false,
                           true, true, true, false)), (String ((Ascii (true,
                           false, true, false, false, true, true, false)),
                           (String ((Ascii (false, false, true, false, true,
                           true, true, false)), (String ((Ascii (true, true,
                           true, true, true, false, true, false)), (String
                           ((Ascii (true, true, false, false, false, true,
                           true, false)), (String ((Ascii (true, true, true,
                           true, false, true, true, false)), (String ((Ascii
                           (true, false, true, true, false, true, true,
                           false)), (String ((Ascii (false, false, false,
                           false, true, true, true, false)), (String ((Ascii
                           (false, true, false, false, true, true, true,
                           false)), (String ((Ascii (true, false, true,
                           false, false, true, true, false)), (String ((Ascii
                           (true, true, false, false, true, true, true,
                           false)), (String ((Ascii (true, true, false,
                           false, true, true, true, false)), (String ((Ascii
                           (true, false, false, true, false, true, true,
                           false)), (String ((Ascii (true, true, true, true,
                           false, true, true, false)), (String ((Ascii
                           (false, true, true, true, false, true, true,
                           false)), EmptyString))))))))))))))))))))))))))))))
                      then set_cfg o (fun c ->
                             upd_cfg c c.client_id (vint a0)
                               c.fetch_max_wait_time c.fetch_min_bytes
                               c.fetch_max_bytes_per_partition
                               c.fetch_crc_validation c.offset_storage
                               c.retry_max_attempts c.idle_timeout)
                      else if is_tag op (String ((Ascii (true, true, false,
                                false, true, true, true, false)), (String
                                ((Ascii (true, false, true, false, false,
                                true, true, false)), (String ((Ascii (false,
                                false, true, false, true, true, true,
                                false)), (String ((Ascii (true, true, true,
                                true, true, false, true, false)), (String
                                ((Ascii (false, true, true, false, false,
                                true, true, false)), (String ((Ascii (true,
                                false, true, false, false, true, true,
                                false)), (String ((Ascii (false, false, true,
                                false, true, true, true, false)), (String
                                ((Ascii (true, true, false, false, false,
                                true, true, false)), (String ((Ascii (false,
                                false, false, true, false, true, true,
                                false)), (String ((Ascii (true, true, true,
                                true, true, false, true, false)), (String
                                ((Ascii (true, false, true, true, false,
                                true, true, false)), (String ((Ascii (true,
                                false, false, false, false, true, true,
                                false)), (String ((Ascii (false, false,
                                false, true, true, true, true, false)),
                                (String ((Ascii (true, true, true, true,
                                true, false, true, false)), (String ((Ascii
                                (true, true, true, false, true, true, true,
                                false)), (String ((Ascii (true, false, false,
                                false, false, true, true, false)), (String
                                ((Ascii (true, false, false, true, false,
                                true, true, false)), (String ((Ascii (false,
                                false, true, false, true, true, true,
                                false)), (String ((Ascii (true, true, true,
                                true, true, false, true, false)), (String
                                ((Ascii (false, false, true, false, true,
                                true, true, false)), (String ((Ascii (true,
                                false, false, true, false, true, true,
                                false)), (String ((Ascii (true, false, true,
                                true, false, true, true, false)), (String
                                ((Ascii (true, false, true, false, false,
                                true, true, false)),
                                EmptyString))))))))))))))))))))))))))))))))))))))))))))))
                           then (match to_millis_i32 ((vint a0), (vint a1)) with
                                 | Ok m0 ->
                                   set_cfg o (fun c ->
                                     upd_cfg c c.client_id c.compression m0
                                       c.fetch_min_bytes
                                       c.fetch_max_bytes_per_partition
                                       c.fetch_crc_validation
                                       c.offset_storage c.retry_max_attempts
                                       c.idle_timeout)
                                 | Err e0 ->
                                   pure o (res_val (fun _ -> vunit) (Err e0))
                                 | Panic what ->
                                   pure o
                                     (res_val (fun _ -> vunit) (Panic what)))
                           else if is_tag op (String ((Ascii (true, true,
                                     false, false, true, true, true, false)),
                                     (String ((Ascii (true, false, true,
                                     false, false, true, true, false)),
                                     (String ((Ascii (false, false, true,
                                     false, true, true, true, false)),
                                     (String ((Ascii (true, true, true, true,
                                     true, false, true, false)), (String
                                     ((Ascii (false, true, true, false,
                                     false, true, true, false)), (String
                                     ((Ascii (true, false, true, false,
                                     false, true, true, false)), (String
                                     ((Ascii (false, false, true, false,
                                     true, true, true, false)), (String
                                     ((Ascii (true, true, false, false,
                                     false, true, true, false)), (String
                                     ((Ascii (false, false, false, true,
                                     false, true, true, false)), (String
                                     ((Ascii (true, true, true, true, true,
                                     false, true, false)), (String ((Ascii
                                     (true, false, true, true, false, true,
                                     true, false)), (String ((Ascii (true,
                                     false, false, true, false, true, true,
                                     false)), (String ((Ascii (false, true,
                                     true, true, false, true, true, false)),
                                     (String ((Ascii (true, true, true, true,
                                     true, false, true, false)), (String
                                     ((Ascii (false, true, false, false,
                                     false, true, true, false)), (String
                                     ((Ascii (true, false, false, true, true,
                                     true, true, false)), (String ((Ascii
                                     (false, false, true, false, true, true,
                                     true, false)), (String ((Ascii (true,
                                     false, true, false, false, true, true,
                                     false)), (String ((Ascii (true, true,
                                     false, false, true, true, true, false)),
                                     EmptyString))))))))))))))))))))))))))))))))))))))
                                then set_cfg o (fun c ->
                                       upd_cfg c c.client_id c.compression
                                         c.fetch_max_wait_time (vint a0)
                                         c.fetch_max_bytes_per_partition
                                         c.fetch_crc_validation
                                         c.offset_storage
                                         c.retry_max_attempts c.idle_timeout)
                                else if is_tag op (String ((Ascii (true,
                                          true, false, false, true, true,
                                          true, false)), (String ((Ascii
                                          (true, false, true, false, false,
                                          true, true, false)), (String
                                          ((Ascii (false, false, true, false,
                                          true, true, true, false)), (String
                                          ((Ascii (true, true, true, true,
                                          true, false, true, false)), (String
                                          ((Ascii (false, true, true, false,
                                          false, true, true, false)), (String
                                          ((Ascii (true, false, true, false,
                                          false, true, true, false)), (String
                                          ((Ascii (false, false, true, false,
                                          true, true, true, false)), (String
                                          ((Ascii (true, true, false, false,
                                          false, true, true, false)), (String
                                          ((Ascii (false, false, false, true,
                                          false, true, true, false)), (String
                                          ((Ascii (true, true, true, true,
                                          true, false, true, false)), (String
                                          ((Ascii (true, false, true, true,
                                          false, true, true, false)), (String
                                          ((Ascii (true, false, false, false,
                                          false, true, true, false)), (String
                                          ((Ascii (false, false, false, true,
                                          true, true, true, false)), (String
                                          ((Ascii (true, true, true, true,
                                          true, false, true, false)), (String
                                          ((Ascii (false, true, false, false,
                                          false, true, true, false)), (String
                                          ((Ascii (true, false, false, true,
                                          true, true, true, false)), (String
                                          ((Ascii (false, false, true, false,
                                          true, true, true, false)), (String
                                          ((Ascii (true, false, true, false,
                                          false, true, true, false)), (String
                                          ((Ascii (true, true, false, false,
                                          true, true, true, false)), (String
                                          ((Ascii (true, true, true, true,
                                          true, false, true, false)), (String
                                          ((Ascii (false, false, false,
                                          false, true, true, true, false)),
                                          (String ((Ascii (true, false, true,
                                          false, false, true, true, false)),
                                          (String ((Ascii (false, true,
                                          false, false, true, true, true,
                                          false)), (String ((Ascii (true,
                                          true, true, true, true, false,
                                          true, false)), (String ((Ascii
                                          (false, false, false, false, true,
                                          true, true, false)), (String
                                          ((Ascii (true, false, false, false,
                                          false, true, true, false)), (String
                                          ((Ascii (false, true, false, false,
                                          true, true, true, false)), (String
                                          ((Ascii (false, false, true, false,
                                          true, true, true, false)), (String
                                          ((Ascii (true, false, false, true,
                                          false, true, true, false)), (String
                                          ((Ascii (false, false, true, false,
                                          true, true, true, false)), (String
                                          ((Ascii (true, false, false, true,
                                          false, true, true, false)), (String
                                          ((Ascii (true, true, true, true,
                                          false, true, true, false)), (String
                                          ((Ascii (false, true, true, true,
                                          false, true, true, false)),
                                          EmptyString))))))))))))))))))))))))))))))))))))))))))))))))))))))))))))))))))
                                     then set_cfg o (fun c ->
                                            upd_cfg c c.client_id
                                              c.compression
                                              c.fetch_max_wait_time
                                              c.fetch_min_bytes (vint a0)
                                              c.fetch_crc_validation
                                              c.offset_storage
                                              c.retry_max_attempts
                                              c.idle_timeout)
                                     else if is_tag op (String ((Ascii (true,
                                               true, false, false, true,
                                               true, true, false)), (String
                                               ((Ascii (true, false, true,
                                               false, false, true, true,
                                               false)), (String ((Ascii
                                               (false, false, true, false,
                                               true, true, true, false)),
                                               (String ((Ascii (true, true,
                                               true, true, true, false, true,
                                               false)), (String ((Ascii
                                               (false, true, true, false,
                                               false, true, true, false)),
                                               (String ((Ascii (true, false,
                                               true, false, false, true,
                                               true, false)), (String ((Ascii
                                               (false, false, true, false,
                                               true, true, true, false)),
                                               (String ((Ascii (true, true,
                                               false, false, false, true,
                                               true, false)), (String ((Ascii
                                               (false, false, false, true,
                                               false, true, true, false)),
                                               (String ((Ascii (true, true,
                                               true, true, true, false, true,
                                               false)), (String ((Ascii
                                               (true, true, false, false,
                                               false, true, true, false)),
                                               (String ((Ascii (false, true,
                                               false, false, true, true,
                                               true, false)), (String ((Ascii
                                               (true, true, false, false,
                                               false, true, true, false)),
                                               (String ((Ascii (true, true,
                                               true, true, true, false, true,
                                               false)), (String ((Ascii
                                               (false, true, true, false,
                                               true, true, true, false)),
                                               (String ((Ascii (true, false,
                                               false, false, false, true,
                                               true, false)), (String ((Ascii
                                               (false, false, true, true,
                                               false, true, true, false)),
                                               (String ((Ascii (true, false,
                                               false, true, false, true,
                                               true, false)), (String ((Ascii
                                               (false, false, true, false,
                                               false, true, true, false)),
                                               (String ((Ascii (true, false,
                                               false, false, false, true,
                                               true, false)), (String ((Ascii
                                               (false, false, true, false,
                                               true, true, true, false)),
                                               (String ((Ascii (true, false,
                                               false, true, false, true,
                                               true, false)), (String ((Ascii
                                               (true, true, true, true,
                                               false, true, true, false)),
                                               (String ((Ascii (false, true,
                                               true, true, false, true, true,
                                               false)),
                                               EmptyString))))))))))))))))))))))))))))))))))))))))))))))))
                                          then set_cfg o (fun c ->
                                                 upd_cfg c c.client_id
                                                   c.compression
                                                   c.fetch_max_wait_time
                                                   c.fetch_min_bytes
                                                   c.fetch_max_bytes_per_partition
                                                   (negb (Z.eqb (vint a0) Z0))
                                                   c.offset_storage
                                                   c.retry_max_attempts
                                                   c.idle_timeout)
                                          else if is_tag op (String ((Ascii
                                                    (true, true, false,
                                                    false, true, true, true,
                                                    false)), (String ((Ascii
                                                    (true, false, true,
                                                    false, false, true, true,
                                                    false)), (String ((Ascii
                                                    (false, false, true,
                                                    false, true, true, true,
                                                    false)), (String ((Ascii
                                                    (true, true, true, true,
                                                    true, false, true,
                                                    false)), (String ((Ascii
                                                    (true, true, true, false,
                                                    false, true, true,
                                                    false)), (String ((Ascii
                                                    (false, true, false,
                                                    false, true, true, true,
                                                    false)), (String ((Ascii
                                                    (true, true, true, true,
                                                    false, true, true,
                                                    false)), (String ((Ascii
                                                    (true, false, true,
                                                    false, true, true, true,
                                                    false)), (String ((Ascii
                                                    (false, false, false,
                                                    false, true, true, true,
                                                    false)), (String ((Ascii
                                                    (true, true, true, true,
                                                    true, false, true,
                                                    false)), (String ((Ascii
                                                    (true, true, true, true,
                                                    false, true, true,
                                                    false)), (String ((Ascii
                                                    (false, true, true,
                                                    false, false, true, true,
                                                    false)), (String ((Ascii
                                                    (false, true, true,
                                                    false, false, true, true,
                                                    false)), (String ((Ascii
                                                    (true, true, false,
                                                    false, true, true, true,
                                                    false)), (String ((Ascii
                                                    (true, false, true,
                                                    false, false, true, true,
                                                    false)), (String ((Ascii
                                                    (false, false, true,
                                                    false, true, true, true,
                                                    false)), (String ((Ascii
                                                    (true, true, true, true,
                                                    true, false, true,
                                                    false)), (String ((Ascii
                                                    (true, true, false,
                                                    false, true, true, true,
                                                    false)), (String ((Ascii
                                                    (false, false, true,
                                                    false, true, true, true,
                                                    false)), (String ((Ascii
                                                    (true, true, true, true,
                                                    false, true, true,
                                                    false)), (String ((Ascii
                                                    (false, true, false,
                                                    false, true, true, true,
                                                    false)), (String ((Ascii
                                                    (true, false, false,
                                                    false, false, true, true,
                                                    false)), (String ((Ascii
                                                    (true, true, true, false,
                                                    false, true, true,
                                                    false)), (String ((Ascii
                                                    (true, false, true,
                                                    false, false, true, true,
                                                    false)),
                                                    EmptyString))))))))))))))))))))))))))))))))))))))))))))))))
                                               then set_cfg o (fun c ->
                                                      upd_cfg c c.client_id
                                                        c.compression
                                                        c.fetch_max_wait_time
                                                        c.fetch_min_bytes
                                                        c.fetch_max_bytes_per_partition
                                                        c.fetch_crc_validation
                                                        (if (||)
                                                              (Z.eqb
                                                                (vint a0) Z0)
                                                              (Z.eqb
                                                                (vint a0)
                                                                (Zpos XH))
                                                         then vint a0
                                                         else Zneg XH)
                                                        c.retry_max_attempts
                                                        c.idle_timeout)
                                               else if is_tag op (String
                                                         ((Ascii (true, true,
                                                         false, false, true,
                                                         true, true, false)),
                                                         (String ((Ascii
                                                         (true, false, true,
                                                         false, false, true,
                                                         true, false)),
                                                         (String ((Ascii
                                                         (false, false, true,
                                                         false, true, true,
                                                         true, false)),
                                                         (String ((Ascii
                                                         (true, true, true,
                                                         true, true, false,
                                                         true, false)),
                                                         (String ((Ascii
                                                         (false, true, false,
                                                         false, true, true,
                                                         true, false)),
                                                         (String ((Ascii
                                                         (true, false, true,
                                                         false, false, true,
                                                         true, false)),
                                                         (String ((Ascii
                                                         (false, false, true,
                                                         false, true, true,
                                                         true, false)),
                                                         (String ((Ascii
                                                         (false, true, false,
                                                         false, true, true,
                                                         true, false)),
                                                         (String ((Ascii
                                                         (true, false, false,
                                                         true, true, true,
                                                         true, false)),
                                                         (String ((Ascii
                                                         (true, true, true,
                                                         true, true, false,
                                                         true, false)),
                                                         (String ((Ascii
                                                         (true, false, true,
                                                         true, false, true,
                                                         true, false)),
                                                         (String ((Ascii
                                                         (true, false, false,
                                                         false, false, true,
                                                         true, false)),
                                                         (String ((Ascii
                                                         (false, false,
                                                         false, true, true,
                                                         true, true, false)),
                                                         (String ((Ascii
                                                         (true, true, true,
                                                         true, true, false,
                                                         true, false)),
                                                         (String ((Ascii
                                                         (true, false, false,
                                                         false, false, true,
                                                         true, false)),
                                                         (String ((Ascii
                                                         (false, false, true,
                                                         false, true, true,
                                                         true, false)),
                                                         (String ((Ascii
                                                         (false, false, true,
                                                         false, true, true,
                                                         true, false)),
                                                         (String ((Ascii
                                                         (true, false, true,
                                                         false, false, true,
                                                         true, false)),
                                                         (String ((Ascii
                                                         (true, false, true,
                                                         true, false, true,
                                                         true, false)),
                                                         (String ((Ascii
                                                         (false, false,
                                                         false, false, true,
                                                         true, true, false)),
                                                         (String ((Ascii
                                                         (false, false, true,
                                                         false, true, true,
                                                         true, false)),
                                                         (String ((Ascii
                                                         (true, true, false,
                                                         false, true, true,
                                                         true, false)),
                                                         EmptyString))))))))))))))))))))))))))))))))))))))))))))
                                                    then set_cfg o (fun c ->
                                                           upd_cfg c
                                                             c.client_id
                                                             c.compression
                                                             c.fetch_max_wait_time
                                                             c.fetch_min_bytes
                                                             c.fetch_max_bytes_per_partition
                                                             c.fetch_crc_validation
                                                             c.offset_storage
                                                             (vint a0)
                                                             c.idle_timeout)
                                                    else if is_tag op (String
                                                              ((Ascii (true,
                                                              true, false,
                                                              false, true,
                                                              true, true,
                                                              false)),
                                                              (String ((Ascii
                                                              (true, false,
                                                              true, false,
                                                              false, true,
                                                              true, false)),
                                                              (String ((Ascii
                                                              (false, false,
                                                              true, false,
                                                              true, true,
                                                              true, false)),
                                                              (String ((Ascii
                                                              (true, true,
                                                              true, true,
                                                              true, false,
                                                              true, false)),
                                                              (String ((Ascii
                                                              (true, true,
                                                              false, false,
                                                              false, true,
                                                              true, false)),
                                                              (String ((Ascii
                                                              (true, true,
                                                              true, true,
                                                              false, true,
                                                              true, false)),
                                                              (String ((Ascii
                                                              (false, true,
                                                              true, true,
                                                              false, true,
                                                              true, false)),
                                                              (String ((Ascii
                                                              (false, true,
                                                              true, true,
                                                              false, true,
                                                              true, false)),
                                                              (String ((Ascii
                                                              (true, false,
                                                              true, false,
                                                              false, true,
                                                              true, false)),
                                                              (String ((Ascii
                                                              (true, true,
                                                              false, false,
                                                              false, true,
                                                              true, false)),
                                                              (String ((Ascii
                                                              (false, false,
                                                              true, false,
                                                              true, true,
                                                              true, false)),
                                                              (String ((Ascii
                                                              (true, false,
                                                              false, true,
                                                              false, true,
                                                              true, false)),
                                                              (String ((Ascii
                                                              (true, true,
                                                              true, true,
                                                              false, true,
                                                              true, false)),
                                                              (String ((Ascii
                                                              (false, true,
                                                              true, true,
                                                              false, true,
                                                              true, false)),
                                                              (String ((Ascii
                                                              (true, true,
                                                              true, true,
                                                              true, false,
                                                              true, false)),
                                                              (String ((Ascii
                                                              (true, false,
                                                              false, true,
                                                              false, true,
                                                              true, false)),
                                                              (String ((Ascii
                                                              (false, false,
                                                              true, false,
                                                              false, true,
                                                              true, false)),
                                                              (String ((Ascii
                                                              (false, false,
                                                              true, true,
                                                              false, true,
                                                              true, false)),
                                                              (String ((Ascii
                                                              (true, false,
                                                              true, false,
                                                              false, true,
                                                              true, false)),
                                                              (String ((Ascii
                                                              (true, true,
                                                              true, true,
                                                              true, false,
                                                              true, false)),
                                                              (String ((Ascii
                                                              (false, false,
                                                              true, false,
                                                              true, true,
                                                              true, false)),
                                                              (String ((Ascii
                                                              (true, false,
                                                              false, true,
                                                              false, true,
                                                              true, false)),
                                                              (String ((Ascii
                                                              (true, false,
                                                              true, true,
                                                              false, true,
                                                              true, false)),
                                                              (String ((Ascii
                                                              (true, false,
                                                              true, false,
                                                              false, true,
                                                              true, false)),
                                                              (String ((Ascii
                                                              (true, true,
                                                              true, true,
                                                              false, true,
                                                              true, false)),
                                                              (String ((Ascii
                                                              (true, false,
                                                              true, false,
                                                              true, true,
                                                              true, false)),
                                                              (String ((Ascii
                                                              (false, false,
                                                              true, false,
                                                              true, true,
                                                              true, false)),
                                                              EmptyString))))))))))))))))))))))))))))))))))))))))))))))))))))))
                                                         then set_cfg o
                                                                (fun c ->
                                                                upd_cfg c
                                                                  c.client_id
                                                                  c.compression
                                                                  c.fetch_max_wait_time
                                                                  c.fetch_min_bytes
                                                                  c.fetch_max_bytes_per_partition
                                                                  c.fetch_crc_validation
                                                                  c.offset_storage
                                                                  c.retry_max_attempts
                                                                  ((vint a0),
                                                                  (vint a1)))
                                                         else if is_tag op
                                                                   (String
                                                                   ((Ascii
                                                                   (true,
                                                                   true,
                                                                   false,
                                                                   false,
                                                                   true,
                                                                   true,
                                                                   true,
                                                                   false)),
                                                                   (String
                                                                   ((Ascii
                                                                   (true,
                                                                   false,
                                                                   true,
                                                                   false,
                                                                   false,
                                                                   true,
                                                                   true,
                                                                   false)),
                                                                   (String
                                                                   ((Ascii
                                                                   (false,
                                                                   false,
                                                                   true,
                                                                   false,
                                                                   true,
                                                                   true,
                                                                   true,
                                                                   false)),
                                                                   (String
                                                                   ((Ascii
                                                                   (true,
                                                                   true,
                                                                   true,
                                                                   true,
                                                                   true,
                                                                   false,
                                                                   true,
                                                                   false)),
                                                                   (String
                                                                   ((Ascii
                                                                   (true,
                                                                   true,
                                                                   false,
                                                                   false,
                                                                   false,
                                                                   true,
                                                                   true,
                                                                   false)),
                                                                   (String
                                                                   ((Ascii
                                                                   (true,
                                                                   true,
                                                                   true,
                                                                   true,
                                                                   false,
                                                                   true,
                                                                   true,
                                                                   false)),
                                                                   (String
                                                                   ((Ascii
                                                                   (false,
                                                                   true,
                                                                   false,
                                                                   false,
                                                                   true,
                                                                   true,
                                                                   true,
                                                                   false)),
                                                                   (String
                                                                   ((Ascii
                                                                   (false,
                                                                   true,
                                                                   false,
                                                                   false,
                                                                   true,
                                                                   true,
                                                                   true,
                                                                   false)),
                                                                   (String
                                                                   ((Ascii
                                                                   (true,
                                                                   false,
                                                                   true,
                                                                   false,
                                                                   false,
                                                                   true,
                                                                   true,
                                                                   false)),
                                                                   (String
                                                                   ((Ascii
                                                                   (false,
                                                                   false,
                                                                   true,
                                                                   true,
                                                                   false,
                                                                   true,
                                                                   true,
                                                                   false)),
                                                                   (String
                                                                   ((Ascii
                                                                   (true,
                                                                   false,
                                                                   false,
                                                                   false,
                                                                   false,
                                                                   true,
                                                                   true,
                                                                   false)),
                                                                   (String
                                                                   ((Ascii
                                                                   (false,
                                                                   false,
                                                                   true,
                                                                   false,
                                                                   true,
                                                                   true,
                                                                   true,
                                                                   false)),
                                                                   (String
                                                                   ((Ascii
                                                                   (true,
                                                                   false,
                                                                   false,
                                                                   true,
                                                                   false,
                                                                   true,
                                                                   true,
                                                                   false)),
                                                                   (String
                                                                   ((Ascii
                                                                   (true,
                                                                   true,
                                                                   true,
                                                                   true,
                                                                   false,
                                                                   true,
                                                                   true,
                                                                   false)),
                                                                   (String
                                                                   ((Ascii
                                                                   (false,
                                                                   true,
                                                                   true,
                                                                   true,
                                                                   false,
                                                                   true,
                                                                   true,
                                                                   false)),
                                                                   EmptyString))))))))))))))))))))))))))))))
                                                              then (match 
                                                                    client_of
                                                                    o with
                                                                    | Some c ->
                                                                    pure
                                                                    (with_client
                                                                    o { cfg =
                                                                    c.cfg;
                                                                    cs =
                                                                    { correlation =
                                                                    (vint a0);
                                                                    brokers =
                                                                    c.cs.brokers;
                                                                    topic_partitions =
                                                                    c.cs.topic_partitions;
                                                                    group_coordinators =
                                                                    c.cs.group_coordinators };
                                                                    conns =
                                                                    c.conns })
                                                                    ok_unit
                                                                    | None ->
                                                                    pure o
                                                                    (vt
                                                                    (String
                                                                    ((Ascii
                                                                    (true,
                                                                    false,
                                                                    true,
                                                                    true,
                                                                    false,
                                                                    true,
                                                                    true,
                                                                    false)),
                                                                    (String
                                                                    ((Ascii
                                                                    (true,
                                                                    true,
                                                                    true,
                                                                    true,
                                                                    false,
                                                                    true,
                                                                    true,
                                                                    false)),
                                                                    (String
                                                                    ((Ascii
                                                                    (false,
                                                                    false,
                                                                    true,
                                                                    false,
                                                                    false,
                                                                    true,
                                                                    true,
                                                                    false)),
                                                                    (String
                                                                    ((Ascii
                                                                    (true,
                                                                    false,
                                                                    true,
                                                                    false,
                                                                    false,
                                                                    true,
                                                                    true,
                                                                    false)),
                                                                    (String
                                                                    ((Ascii
                                                                    (false,
                                                                    false,
                                                                    true,
                                                                    true,
                                                                    false,
                                                                    true,
                                                                    true,
                                                                    false)),
                                                                    (String
                                                                    ((Ascii
                                                                    (true,
                                                                    true,
                                                                    true,
                                                                    true,
                                                                    true,
                                                                    false,
                                                                    true,
                                                                    false)),
                                                                    (String
                                                                    ((Ascii
                                                                    (true,
                                                                    false,
                                                                    true,
                                                                    false,
                                                                    false,
                                                                    true,
                                                                    true,
                                                                    false)),
                                                                    (String
                                                                    ((Ascii
                                                                    (false,
                                                                    true,
                                                                    false,
                                                                    false,
                                                                    true,
                                                                    true,
                                                                    true,
                                                                    false)),
                                                                    (String
                                                                    ((Ascii
                                                                    (false,
                                                                    true,
                                                                    false,
                                                                    false,
                                                                    true,
                                                                    true,
                                                                    true,
                                                                    false)),
                                                                    (String
                                                                    ((Ascii
                                                                    (true,
                                                                    true,
                                                                    true,
                                                                    true,
                                                                    false,
                                                                    true,
                                                                    true,
                                                                    false)),
                                                                    (String
                                                                    ((Ascii
                                                                    (false,
                                                                    true,
                                                                    false,
                                                                    false,
                                                                    true,
                                                                    true,
                                                                    true,
                                                                    false)),
                                                                    EmptyString))))))))))))))))))))))
                                                                    []))
                                                              else if 
                                                                    is_tag op
                                                                    (String
                                                                    ((Ascii
                                                                    (true,
                                                                    true,
                                                                    true,
                                                                    false,
                                                                    false,
                                                                    true,
                                                                    true,
                                                                    false)),
                                                                    (String
                                                                    ((Ascii
                                                                    (true,
                                                                    false,
                                                                    true,
                                                                    false,
                                                                    false,
                                                                    true,
                                                                    true,
                                                                    false)),
                                                                    (String
                                                                    ((Ascii
                                                                    (false,
                                                                    false,
                                                                    true,
                                                                    false,
                                                                    true,
                                                                    true,
                                                                    true,
                                                                    false)),
                                                                    (String
                                                                    ((Ascii
                                                                    (true,
                                                                    true,
                                                                    true,
                                                                    true,
                                                                    true,
                                                                    false,
                                                                    true,
                                                                    false)),
                                                                    (String
                                                                    ((Ascii
                                                                    (true,
                                                                    true,
                                                                    false,
                                                                    false,
                                                                    false,
                                                                    true,
                                                                    true,
                                                                    false)),
                                                                    (String
                                                                    ((Ascii
                                                                    (true,
                                                                    true,
                                                                    true,
                                                                    true,
                                                                    false,
                                                                    true,
                                                                    true,
                                                                    false)),
                                                                    (String
                                                                    ((Ascii
                                                                    (false,
                                                                    true,
                                                                    true,
                                                                    true,
                                                                    false,
                                                                    true,
                                                                    true,
                                                                    false)),
                                                                    (String
                                                                    ((Ascii
                                                                    (false,
                                                                    true,
                                                                    true,
                                                                    false,
                                                                    false,
                                                                    true,
                                                                    true,
                                                                    false)),
                                                                    (String
                                                                    ((Ascii
                                                                    (true,
                                                                    false,
                                                                    false,
                                                                    true,
                                                                    false,
                                                                    true,
                                                                    true,
                                                                    false)),
                                                                    (String
                                                                    ((Ascii
                                                                    (true,
                                                                    true,
                                                                    true,
                                                                    false,
                                                                    false,
                                                                    true,
                                                                    true,
                                                                    false)),
                                                                    EmptyString))))))))))))))))))))
                                                                   then 
                                                                    (match 
                                                                    client_of
                                                                    o with
                                                                    | Some c ->
                                                                    pure o
                                                                    (vt
                                                                    (String
                                                                    ((Ascii
                                                                    (true,
                                                                    true,
                                                                    true,
                                                                    true,
                                                                    false,
                                                                    true,
                                                                    true,
                                                                    false)),
                                                                    (String
                                                                    ((Ascii
                                                                    (true,
                                                                    true,
                                                                    false,
                                                                    true,
                                                                    false,
                                                                    true,
                                                                    true,
                                                                    false)),
                                                                    EmptyString))))
                                                                    ((config_view
                                                                    c.cfg) :: []))
                                                                    | None ->
                                                                    pure o
                                                                    (vt
                                                                    (String
                                                                    ((Ascii
                                                                    (true,
                                                                    false,
                                                                    true,
                                                                    true,
                                                                    false,
                                                                    true,
                                                                    true,
                                                                    false)),
                                                                    (String
                                                                    ((Ascii
                                                                    (true,
                                                                    true,
                                                                    true,
                                                                    true,
                                                                    false,
                                                                    true,
                                                                    true,
                                                                    false)),
                                                                    (String
                                                                    ((Ascii
                                                                    (false,
                                                                    false,
                                                                    true,
                                                                    false,
                                                                    false,
                                                                    true,
                                                                    true,
                                                                    false)),
                                                                    (String
                                                                    ((Ascii
                                                                    (true,
                                                                    false,
                                                                    true,
                                                                    false,
                                                                    false,
                                                                    true,
                                                                    true,
                                                                    false)),
                                                                    (String
                                                                    ((Ascii
                                                                    (false,
                                                                    false,
                                                                    true,
                                                                    true,
                                                                    false,
                                                                    true,
                                                                    true,
                                                                    false)),
                                                                    (String
                                                                    ((Ascii
                                                                    (true,
                                                                    true,
                                                                    true,
                                                                    true,
                                                                    true,
                                                                    false,
                                                                    true,
                                                                    false)),
                                                                    (String
                                                                    ((Ascii
                                                                    (true,
                                                                    false,
                                                                    true,
                                                                    false,
                                                                    false,
                                                                    true,
                                                                    true,
                                                                    false)),
                                                                    (String
                                                                    ((Ascii
                                                                    (false,
                                                                    true,
                                                                    false,
                                                                    false,
                                                                    true,
                                                                    true,
                                                                    true,
                                                                    false)),
                                                                    (String
                                                                    ((Ascii
                                                                    (false,
                                                                    true,
                                                                    false,
                                                                    false,
                                                                    true,
                                                                    true,
                                                                    true,
                                                                    false)),
                                                                    (String
                                                                    ((Ascii
                                                                    (true,
                                                                    true,
                                                                    true,
                                                                    true,
                                                                    false,
                                                                    true,
                                                                    true,
                                                                    false)),
                                                                    (String
                                                                    ((Ascii
                                                                    (false,
                                                                    true,
                                                                    false,
                                                                    false,
                                                                    true,
                                                                    true,
                                                                    true,
                                                                    false)),
                                                                    EmptyString))))))))))))))))))))))
                                                                    []))
                                                                   else 
                                                                    if 
                                                                    is_tag op
                                                                    (String
                                                                    ((Ascii
                                                                    (false,
                                                                    false,
                                                                    true,
                                                                    false,
                                                                    true,
                                                                    true,
                                                                    true,
                                                                    false)),
                                                                    (String
                                                                    ((Ascii
                                                                    (true,
                                                                    true,
                                                                    true,
                                                                    true,
                                                                    false,
                                                                    true,
                                                                    true,
                                                                    false)),
                                                                    (String
                                                                    ((Ascii
                                                                    (false,
                                                                    false,
                                                                    false,
                                                                    false,
                                                                    true,
                                                                    true,
                                                                    true,
                                                                    false)),
                                                                    (String
                                                                    ((Ascii
                                                                    (true,
                                                                    false,
                                                                    false,
                                                                    true,
                                                                    false,
                                                                    true,
                                                                    true,
                                                                    false)),
                                                                    (String
                                                                    ((Ascii
                                                                    (true,
                                                                    true,
                                                                    false,
                                                                    false,
                                                                    false,
                                                                    true,
                                                                    true,
                                                                    false)),
                                                                    (String
                                                                    ((Ascii
                                                                    (true,
                                                                    true,
                                                                    false,
                                                                    false,
                                                                    true,
                                                                    true,
                                                                    true,
                                                                    false)),
                                                                    EmptyString))))))))))))
                                                                    then 
                                                                    (match 
                                                                    client_of
                                                                    o with
                                                                    | Some c ->
                                                                    pure o
                                                                    (vt
                                                                    (String
                                                                    ((Ascii
                                                                    (true,
                                                                    true,
                                                                    true,
                                                                    true,
                                                                    false,
                                                                    true,
                                                                    true,
                                                                    false)),
                                                                    (String
                                                                    ((Ascii
                                                                    (true,
                                                                    true,
                                                                    false,
                                                                    true,
                                                                    false,
                                                                    true,
                                                                    true,
                                                                    false)),
                                                                    EmptyString))))
                                                                    ((topics_view
                                                                    c.cs) :: []))
                                                                    | None ->
                                                                    pure o
                                                                    (vt
                                                                    (String
                                                                    ((Ascii
                                                                    (true,
                                                                    false,
                                                                    true,
                                                                    true,
                                                                    false,
                                                                    true,
                                                                    true,
                                                                    false)),
                                                                    (String
                                                                    ((Ascii
                                                                    (true,
                                                                    true,
                                                                    true,
                                                                    true,
                                                                    false,
                                                                    true,
                                                                    true,
                                                                    false)),
                                                                    (String
                                                                    ((Ascii
                                                                    (false,
                                                                    false,
                                                                    true,
                                                                    false,
                                                                    false,
                                                                    true,
                                                                    true,
                                                                    false)),
                                                                    (String
                                                                    ((Ascii
                                                                    (true,
                                                                    false,
                                                                    true,
                                                                    false,
                                                                    false,
                                                                    true,
                                                                    true,
                                                                    false)),
                                                                    (String
                                                                    ((Ascii
                                                                    (false,
                                                                    false,
                                                                    true,
                                                                    true,
                                                                    false,
                                                                    true,
                                                                    true,
                                                                    false)),
                                                                    (String
                                                                    ((Ascii
                                                                    (true,
                                                                    true,
                                                                    true,
                                                                    true,
                                                                    true,
                                                                    false,
                                                                    true,
                                                                    false)),
                                                                    (String
                                                                    ((Ascii
                                                                    (true,
                                                                    false,
                                                                    true,
                                                                    false,
                                                                    false,
                                                                    true,
                                                                    true,
                                                                    false)),
                                                                    (String
                                                                    ((Ascii
                                                                    (false,
                                                                    true,
                                                                    false,
                                                                    false,
                                                                    true,
                                                                    true,
                                                                    true,
                                                                    false)),
                                                                    (String
                                                                    ((Ascii
                                                                    (false,
                                                                    true,
                                                                    false,
                                                                    false,
                                                                    true,
                                                                    true,
                                                                    true,
                                                                    false)),
                                                                    (String
                                                                    ((Ascii
                                                                    (true,
                                                                    true,
                                                                    true,
                                                                    true,
                                                                    false,
                                                                    true,
                                                                    true,
                                                                    false)),
                                                                    (String
                                                                    ((Ascii
                                                                    (false,
                                                                    true,
                                                                    false,
                                                                    false,
                                                                    true,
                                                                    true,
                                                                    true,
                                                                    false)),
                                                                    EmptyString))))))))))))))))))))))
                                                                    []))
                                                                    else 
                                                                    if 
                                                                    is_tag op
                                                                    (String
                                                                    ((Ascii
                                                                    (false,
                                                                    false,
                                                                    true,
                                                                    true,
                                                                    false,
                                                                    true,
                                                                    true,
                                                                    false)),
                                                                    (String
                                                                    ((Ascii
                                                                    (true,
                                                                    true,
                                                                    true,
                                                                    true,
                                                                    false,
                                                                    true,
                                                                    true,
                                                                    false)),
                                                                    (String
                                                                    ((Ascii
                                                                    (true,
                                                                    false,
                                                                    false,
                                                                    false,
                                                                    false,
                                                                    true,
                                                                    true,
                                                                    false)),
                                                                    (String
                                                                    ((Ascii
                                                                    (false,
                                                                    false,
                                                                    true,
                                                                    false,
                                                                    false,
                                                                    true,
                                                                    true,
                                                                    false)),
                                                                    (String
                                                                    ((Ascii
                                                                    (true,
                                                                    true,
                                                                    true,
                                                                    true,
                                                                    true,
                                                                    false,
                                                                    true,
                                                                    false)),
                                                                    (String
                                                                    ((Ascii
                                                                    (true,
                                                                    false,
                                                                    true,
                                                                    true,
                                                                    false,
                                                                    true,
                                                                    true,
                                                                    false)),
                                                                    (String
                                                                    ((Ascii
                                                                    (true,
                                                                    false,
                                                                    true,
                                                                    false,
                                                                    false,
                                                                    true,
                                                                    true,
                                                                    false)),
                                                                    (String
                                                                    ((Ascii
                                                                    (false,
                                                                    false,
                                                                    true,
                                                                    false,
                                                                    true,
                                                                    true,
                                                                    true,
                                                                    false)),
                                                                    (String
                                                                    ((Ascii
                                                                    (true,
                                                                    false,
                                                                    false,
                                                                    false,
                                                                    false,
                                                                    true,
                                                                    true,
                                                                    false)),
                                                                    (String
                                                                    ((Ascii
                                                                    (false,
                                                                    false,
                                                                    true,
                                                                    false,
                                                                    false,
                                                                    true,
                                                                    true,
                                                                    false)),
                                                                    (String
                                                                    ((Ascii
                                                                    (true,
                                                                    false,
                                                                    false,
                                                                    false,
                                                                    false,
                                                                    true,
                                                                    true,
                                                                    false)),
                                                                    (String
                                                                    ((Ascii
                                                                    (false,
                                                                    false,
                                                                    true,
                                                                    false,
                                                                    true,
                                                                    true,
                                                                    true,
                                                                    false)),
                                                                    (String
                                                                    ((Ascii
                                                                    (true,
                                                                    false,
                                                                    false,
                                                                    false,
                                                                    false,
                                                                    true,
                                                                    true,
                                                                    false)),
                                                                    (String
                                                                    ((Ascii
                                                                    (true,
                                                                    true,
                                                                    true,
                                                                    true,
                                                                    true,
                                                                    false,
                                                                    true,
                                                                    false)),
                                                                    (String
                                                                    ((Ascii
                                                                    (true,
                                                                    false,
                                                                    false,
                                                                    false,
                                                                    false,
                                                                    true,
                                                                    true,
                                                                    false)),
                                                                    (String
                                                                    ((Ascii
                                                                    (false,
                                                                    false,
                                                                    true,
                                                                    true,
                                                                    false,
                                                                    true,
                                                                    true,
                                                                    false)),
                                                                    (String
                                                                    ((Ascii
                                                                    (false,
                                                                    false,
                                                                    true,
                                                                    true,
                                                                    false,
                                                                    true,
                                                                    true,
                                                                    false)),
                                                                    EmptyString))))))))))))))))))))))))))))))))))
                                                                    then 
                                                                    cm
                                                                    load_metadata_all
                                                                    (fun _ ->
                                                                    vunit)
                                                                    else 
                                                                    if 
                                                                    is_tag op
                                                                    (String
                                                                    ((Ascii
                                                                    (false,
                                                                    false,
                                                                    true,
                                                                    true,
                                                                    false,
                                                                    true,
                                                                    true,
                                                                    false)),
                                                                    (String
                                                                    ((Ascii
                                                                    (true,
                                                                    true,
                                                                    true,
                                                                    true,
                                                                    false,
                                                                    true,
                                                                    true,
                                                                    false)),
                                                                    (String
                                                                    ((Ascii
                                                                    (true,
                                                                    false,
                                                                    false,
                                                                    false,
                                                                    false,
                                                                    true,
                                                                    true,
                                                                    false)),
                                                                    (String
                                                                    ((Ascii
                                                                    (false,
                                                                    false,
                                                                    true,
                                                                    false,
                                                                    false,
                                                                    true,
                                                                    true,
                                                                    false)),
                                                                    (String
                                                                    ((Ascii
                                                                    (true,
                                                                    true,
                                                                    true,
                                                                    true,
                                                                    true,
                                                                    false,
                                                                    true,
                                                                    false)),
                                                                    (String
                                                                    ((Ascii
                                                                    (true,
                                                                    false,
                                                                    true,
                                                                    true,
                                                                    false,
                                                                    true,
                                                                    true,
                                                                    false)),
                                                                    (String
                                                                    ((Ascii
                                                                    (true,
                                                                    false,
                                                                    true,
                                                                    false,
                                                                    false,
                                                                    true,
                                                                    true,
                                                                    false)),
                                                                    (String
                                                                    ((Ascii
                                                                    (false,
                                                                    false,
                                                                    true,
                                                                    false,
                                                                    true,
                                                                    true,
                                                                    true,
                                                                    false)),
                                                                    (String
                                                                    ((Ascii
                                                                    (true,
                                                                    false,
                                                                    false,
                                                                    false,
                                                                    false,
                                                                    true,
                                                                    true,
                                                                    false)),
                                                                    (String
                                                                    ((Ascii
                                                                    (false,
                                                                    false,
                                                                    true,
                                                                    false,
                                                                    false,
                                                                    true,
                                                                    true,
                                                                    false)),
                                                                    (String
                                                                    ((Ascii
                                                                    (true,
                                                                    false,
                                                                    false,
                                                                    false,
                                                                    false,
                                                                    true,
                                                                    true,
                                                                    false)),
                                                                    (String
                                                                    ((Ascii
                                                                    (false,
                                                                    false,
                                                                    true,
                                                                    false,
                                                                    true,
                                                                    true,
                                                                    true,
                                                                    false)),
                                                                    (String
                                                                    ((Ascii
                                                                    (true,
                                                                    false,
                                                                    false,
                                                                    false,
                                                                    false,
                                                                    true,
                                                                    true,
                                                                    false)),
                                                                    EmptyString))))))))))))))))))))))))))
                                                                    then 
                                                                    cm
                                                                    (load_metadata
                                                                    (map
                                                                    vbytes
                                                                    (vlist a0)))
                                                                    (fun _ ->
                                                                    vunit)
                                                                    else 
                                                                    if 
                                                                    is_tag op
                                                                    (String
                                                                    ((Ascii
                                                                    (false,
                                                                    true,
                                                                    false,
                                                                    false,
                                                                    true,
                                                                    true,
                                                                    true,
                                                                    false)),
                                                                    (String
                                                                    ((Ascii
                                                                    (true,
                                                                    false,
                                                                    true,
                                                                    false,
                                                                    false,
                                                                    true,
                                                                    true,
                                                                    false)),
                                                                    (String
                                                                    ((Ascii
                                                                    (true,
                                                                    true,
                                                                    false,
                                                                    false,
                                                                    true,
                                                                    true,
                                                                    true,
                                                                    false)),
                                                                    (String
                                                                    ((Ascii
                                                                    (true,
                                                                    false,
                                                                    true,
                                                                    false,
                                                                    false,
                                                                    true,
                                                                    true,
                                                                    false)),
                                                                    (String
                                                                    ((Ascii
                                                                    (false,
                                                                    false,
                                                                    true,
                                                                    false,
                                                                    true,
                                                                    true,
                                                                    true,
                                                                    false)),
                                                                    (String
                                                                    ((Ascii
                                                                    (true,
                                                                    true,
                                                                    true,
                                                                    true,
                                                                    true,
                                                                    false,
                                                                    true,
                                                                    false)),
                                                                    (String
                                                                    ((Ascii
                                                                    (true,
                                                                    false,
                                                                    true,
                                                                    true,
                                                                    false,
                                                                    true,
                                                                    true,
                                                                    false)),
                                                                    (String
                                                                    ((Ascii
                                                                    (true,
                                                                    false,
                                                                    true,
                                                                    false,
                                                                    false,
                                                                    true,
                                                                    true,
                                                                    false)),
                                                                    (String
                                                                    ((Ascii
                                                                    (false,
                                                                    false,
                                                                    true,
                                                                    false,
                                                                    true,
                                                                    true,
                                                                    true,
                                                                    false)),
                                                                    (String
                                                                    ((Ascii
                                                                    (true,
                                                                    false,
                                                                    false,
                                                                    false,
                                                                    false,
                                                                    true,
                                                                    true,
                                                                    false)),
                                                                    (String
                                                                    ((Ascii
                                                                    (false,
                                                                    false,
                                                                    true,
                                                                    false,
                                                                    false,
                                                                    true,
                                                                    true,
                                                                    false)),
                                                                    (String
                                                                    ((Ascii
                                                                    (true,
                                                                    false,
                                                                    false,
                                                                    false,
                                                                    false,
                                                                    true,
                                                                    true,
                                                                    false)),
                                                                    (String
                                                                    ((Ascii
                                                                    (false,
                                                                    false,
                                                                    true,
                                                                    false,
                                                                    true,
                                                                    true,
                                                                    true,
                                                                    false)),
                                                                    (String
                                                                    ((Ascii
                                                                    (true,
                                                                    false,
                                                                    false,
                                                                    false,
                                                                    false,
                                                                    true,
                                                                    true,
                                                                    false)),
                                                                    EmptyString))))))))))))))))))))))))))))
                                                                    then 
                                                                    cm
                                                                    reset_metadata
                                                                    (fun _ ->
                                                                    vunit)
                                                                    else 
                                                                    if 
                                                                    is_tag op
                                                                    (String
                                                                    ((Ascii
                                                                    (false,
                                                                    true,
                                                                    true,
                                                                    false,
                                                                    false,
                                                                    true,
                                                                    true,
                                                                    false)),
                                                                    (String
                                                                    ((Ascii
                                                                    (true,
                                                                    false,
                                                                    true,
                                                                    false,
                                                                    false,
                                                                    true,
                                                                    true,
                                                                    false)),
                                                                    (String
                                                                    ((Ascii
                                                                    (false,
                                                                    false,
                                                                    true,
                                                                    false,
                                                                    true,
                                                                    true,
                                                                    true,
                                                                    false)),
                                                                    (String
                                                                    ((Ascii
                                                                    (true,
                                                                    true,
                                                                    false,
                                                                    false,
                                                                    false,
                                                                    true,
                                                                    true,
                                                                    false)),
                                                                    (String
                                                                    ((Ascii
                                                                    (false,
                                                                    false,
                                                                    false,
                                                                    true,
                                                                    false,
                                                                    true,
                                                                    true,
                                                                    false)),
                                                                    (String
                                                                    ((Ascii
                                                                    (true,
                                                                    true,
                                                                    true,
                                                                    true,
                                                                    true,
                                                                    false,
                                                                    true,
                                                                    false)),
                                                                    (String
                                                                    ((Ascii
                                                                    (true,
                                                                    true,
                                                                    true,
                                                                    true,
                                                                    false,
                                                                    true,
                                                                    true,
                                                                    false)),
                                                                    (String
                                                                    ((Ascii
                                                                    (false,
                                                                    true,
                                                                    true,
                                                                    false,
                                                                    false,
                                                                    true,
                                                                    true,
                                                                    false)),
                                                                    (String
                                                                    ((Ascii
                                                                    (false,
                                                                    true,
                                                                    true,
                                                                    false,
                                                                    false,
                                                                    true,
                                                                    true,
                                                                    false)),
                                                                    (String
                                                                    ((Ascii
                                                                    (true,
                                                                    true,
                                                                    false,
                                                                    false,
                                                                    true,
                                                                    true,
                                                                    true,
                                                                    false)),
                                                                    (String
                                                                    ((Ascii
                                                                    (true,
                                                                    false,
                                                                    true,
                                                                    false,
                                                                    false,
                                                                    true,
                                                                    true,
                                                                    false)),
                                                                    (String
                                                                    ((Ascii
                                                                    (false,
                                                                    false,
                                                                    true,
                                                                    false,
                                                                    true,
                                                                    true,
                                                                    true,
                                                                    false)),
                                                                    (String
                                                                    ((Ascii
                                                                    (true,
                                                                    true,
                                                                    false,
                                                                    false,
                                                                    true,
                                                                    true,
                                                                    true,
                                                                    false)),
                                                                    EmptyString))))))))))))))))))))))))))
                                                                    then 
                                                                    cm
                                                                    (fetch_offsets
                                                                    (map
                                                                    vbytes
                                                                    (vlist a0))
                                                                    (time_of
                                                                    a1))
                                                                    offsets_map_view
                                                                    else 
                                                                    if 
                                                                    is_tag op
                                                                    (String
                                                                    ((Ascii
                                                                    (false,
                                                                    false,
                                                                    true,
                                                                    true,
                                                                    false,
                                                                    true,
                                                                    true,
                                                                    false)),
                                                                    (String
                                                                    ((Ascii
                                                                    (true,
                                                                    false,
                                                                    false,
                                                                    true,
                                                                    false,
                                                                    true,
                                                                    true,
                                                                    false)),
                                                                    (String
                                                                    ((Ascii
                                                                    (true,
                                                                    true,
                                                                    false,
                                                                    false,
                                                                    true,
                                                                    true,
                                                                    true,
                                                                    false)),
                                                                    (String
                                                                    ((Ascii
                                                                    (false,
                                                                    false,
                                                                    true,
                                                                    false,
                                                                    true,
                                                                    true,
                                                                    true,
                                                                    false)),
                                                                    (String
                                                                    ((Ascii
                                                                    (true,
                                                                    true,
                                                                    true,
                                                                    true,
                                                                    true,
                                                                    false,
                                                                    true,
                                                                    false)),
                                                                    (String
                                                                    ((Ascii
                                                                    (true,
                                                                    true,
                                                                    true,
                                                                    true,
                                                                    false,
                                                                    true,
                                                                    true,
                                                                    false)),
                                                                    (String
                                                                    ((Ascii
                                                                    (false,
                                                                    true,
                                                                    true,
                                                                    false,
                                                                    false,
                                                                    true,
                                                                    true,
                                                                    false)),
                                                                    (String
                                                                    ((Ascii
                                                                    (false,
                                                                    true,
                                                                    true,
                                                                    false,
                                                                    false,
                                                                    true,
                                                                    true,
                                                                    false)),
                                                                    (String
                                                                    ((Ascii
                                                                    (true,
                                                                    true,
                                                                    false,
                                                                    false,
                                                                    true,
                                                                    true,
                                                                    true,
                                                                    false)),
                                                                    (String
                                                                    ((Ascii
                                                                    (true,
                                                                    false,
                                                                    true,
                                                                    false,
                                                                    false,
                                                                    true,
                                                                    true,
                                                                    false)),
                                                                    (String
                                                                    ((Ascii
                                                                    (false,
                                                                    false,
                                                                    true,
                                                                    false,
                                                                    true,
                                                                    true,
                                                                    true,
                                                                    false)),
                                                                    (String
                                                                    ((Ascii
                                                                    (true,
                                                                    true,
                                                                    false,
                                                                    false,
                                                                    true,
                                                                    true,
                                                                    true,
                                                                    false)),
                                                                    EmptyString))))))))))))))))))))))))
                                                                    then 
                                                                    cm
                                                                    (list_offsets
                                                                    (map
                                                                    vbytes
                                                                    (vlist a0))
                                                                    (time_of
                                                                    a1))
                                                                    (fun m0 ->
                                                                    VL
                                                                    (map
                                                                    (fun pat ->
                                                                    let (
                                                                    t0, ps) =
                                                                    pat
                                                                    in
                                                                    vt
                                                                    (String
                                                                    ((Ascii
                                                                    (false,
                                                                    false,
                                                                    true,
                                                                    false,
                                                                    true,
                                                                    true,
                                                                    true,
                                                                    false)),
                                                                    (String
                                                                    ((Ascii
                                                                    (true,
                                                                    true,
                                                                    true,
                                                                    true,
                                                                    false,
                                                                    true,
                                                                    true,
                                                                    false)),
                                                                    (String
                                                                    ((Ascii
                                                                    (false,
                                                                    false,
                                                                    false,
                                                                    false,
                                                                    true,
                                                                    true,
                                                                    true,
                                                                    false)),
                                                                    (String
                                                                    ((Ascii
                                                                    (true,
                                                                    false,
                                                                    false,
                                                                    true,
                                                                    false,
                                                                    true,
                                                                    true,
                                                                    false)),
                                                                    (String
                                                                    ((Ascii
                                                                    (true,
                                                                    true,
                                                                    false,
                                                                    false,
                                                                    false,
                                                                    true,
                                                                    true,
                                                                    false)),
                                                                    EmptyString))))))))))
                                                                    ((VB
                                                                    t0) :: ((VL
                                                                    (map
                                                                    (fun pat0 ->
                                                                    let (
                                                                    y, time) =
                                                                    pat0
                                                                    in
                                                                    let (
                                                                    p, off) =
                                                                    y
                                                                    in
                                                                    vt
                                                                    (String
                                                                    ((Ascii
                                                                    (false,
                                                                    false,
                                                                    true,
                                                                    false,
                                                                    true,
                                                                    true,
                                                                    true,
                                                                    false)),
                                                                    (String
                                                                    ((Ascii
                                                                    (false,
                                                                    false,
                                                                    false,
                                                                    false,
                                                                    true,
                                                                    true,
                                                                    true,
                                                                    false)),
                                                                    (String
                                                                    ((Ascii
                                                                    (true,
                                                                    true,
                                                                    true,
                                                                    true,
                                                                    false,
                                                                    true,
                                                                    true,
                                                                    false)),
                                                                    EmptyString))))))
                                                                    ((VI
                                                                    p) :: ((VI
                                                                    off) :: ((VI
                                                                    time) :: []))))
                                                                    ps)) :: [])))
                                                                    m0))
                                                                    else 
                                                                    if 
                                                                    is_tag op
                                                                    (String
                                                                    ((Ascii
                                                                    (false,
                                                                    true,
                                                                    true,
                                                                    false,
                                                                    false,
                                                                    true,
                                                                    true,
                                                                    false)),
                                                                    (String
                                                                    ((Ascii
                                                                    (true,
                                                                    false,
                                                                    true,
                                                                    false,
                                                                    false,
                                                                    true,
                                                                    true,
                                                                    false)),
                                                                    (String
                                                                    ((Ascii
                                                                    (false,
                                                                    false,
                                                                    true,
                                                                    false,
                                                                    true,
                                                                    true,
                                                                    true,
                                                                    false)),
                                                                    (String
                                                                    ((Ascii
                                                                    (true,
                                                                    true,
                                                                    false,
                                                                    false,
                                                                    false,
                                                                    true,
                                                                    true,
                                                                    false)),
                                                                    (String
                                                                    ((Ascii
                                                                    (false,
                                                                    false,
                                                                    false,
                                                                    true,
                                                                    false,
                                                                    true,
                                                                    true,
                                                                    false)),
                                                                    (String
                                                                    ((Ascii
                                                                    (true,
                                                                    true,
                                                                    true,
                                                                    true,
                                                                    true,
                                                                    false,
                                                                    true,
                                                                    false)),
                                                                    (String
                                                                    ((Ascii
                                                                    (false,
                                                                    false,
                                                                    true,
                                                                    false,
                                                                    true,
                                                                    true,
                                                                    true,
                                                                    false)),
                                                                    (String
                                                                    ((Ascii
                                                                    (true,
                                                                    true,
                                                                    true,
                                                                    true,
                                                                    false,
                                                                    true,
                                                                    true,
                                                                    false)),
                                                                    (String
                                                                    ((Ascii
                                                                    (false,
                                                                    false,
                                                                    false,
                                                                    false,
                                                                    true,
                                                                    true,
                                                                    true,
                                                                    false)),
                                                                    (String
                                                                    ((Ascii
                                                                    (true,
                                                                    false,
                                                                    false,
                                                                    true,
                                                                    false,
                                                                    true,
                                                                    true,
                                                                    false)),
                                                                    (String
                                                                    ((Ascii
                                                                    (true,
                                                                    true,
                                                                    false,
                                                                    false,
                                                                    false,
                                                                    true,
                                                                    true,
                                                                    false)),
                                                                    (String
                                                                    ((Ascii
                                                                    (true,
                                                                    true,
                                                                    true,
                                                                    true,
                                                                    true,
                                                                    false,
                                                                    true,
                                                                    false)),
                                                                    (String
                                                                    ((Ascii
                                                                    (true,
                                                                    true,
                                                                    true,
                                                                    true,
                                                                    false,
                                                                    true,
                                                                    true,
                                                                    false)),
                                                                    (String
                                                                    ((Ascii
                                                                    (false,
                                                                    true,
                                                                    true,
                                                                    false,
                                                                    false,
                                                                    true,
                                                                    true,
                                                                    false)),
                                                                    (String
                                                                    ((Ascii
                                                                    (false,
                                                                    true,
                                                                    true,
                                                                    false,
                                                                    false,
                                                                    true,
                                                                    true,
                                                                    false)),
                                                                    (String
                                                                    ((Ascii
                                                                    (true,
                                                                    true,
                                                                    false,
                                                                    false,
                                                                    true,
                                                                    true,
                                                                    true,
                                                                    false)),
                                                                    (String
                                                                    ((Ascii
                                                                    (true,
                                                                    false,
                                                                    true,
                                                                    false,
                                                                    false,
                                                                    true,
                                                                    true,
                                                                    false)),
                                                                    (String
                                                                    ((Ascii
                                                                    (false,
                                                                    false,
                                                                    true,
                                                                    false,
                                                                    true,
                                                                    true,
                                                                    true,
                                                                    false)),
                                                                    (String
                                                                    ((Ascii
                                                                    (true,
                                                                    true,
                                                                    false,
                                                                    false,
                                                                    true,
                                                                    true,
                                                                    true,
                                                                    false)),
                                                                    EmptyString))))))))))))))))))))))))))))))))))))))
                                                                    then 
                                                                    cm
                                                                    (fetch_topic_offsets
                                                                    (vbytes
                                                                    a0)
                                                                    (time_of
                                                                    a1))
                                                                    (fun ps ->
                                                                    VL
                                                                    (map
                                                                    po_val ps))
                                                                    else 
                                                                    if 
                                                                    is_tag op
                                                                    (String
                                                                    ((Ascii
                                                                    (false,
                                                                    true,
                                                                    true,
                                                                    false,
                                                                    false,
                                                                    true,
                                                                    true,
                                                                    false)),
                                                                    (String
                                                                    ((Ascii
                                                                    (true,
                                                                    false,
                                                                    true,
                                                                    false,
                                                                    false,
                                                                    true,
                                                                    true,
                                                                    false)),
                                                                    (String
                                                                    ((Ascii
                                                                    (false,
                                                                    false,
                                                                    true,
                                                                    false,
                                                                    true,
                                                                    true,
                                                                    true,
                                                                    false)),
                                                                    (String
                                                                    ((Ascii
                                                                    (true,
                                                                    true,
                                                                    false,
                                                                    false,
                                                                    false,
                                                                    true,
                                                                    true,
                                                                    false)),
                                                                    (String
                                                                    ((Ascii
                                                                    (false,
                                                                    false,
                                                                    false,
                                                                    true,
                                                                    false,
                                                                    true,
                                                                    true,
                                                                    false)),
                                                                    (String
                                                                    ((Ascii
                                                                    (true,
                                                                    true,
                                                                    true,
                                                                    true,
                                                                    true,
                                                                    false,
                                                                    true,
                                                                    false)),
                                                                    (String
                                                                    ((Ascii
                                                                    (true,
                                                                    false,
                                                                    true,
                                                                    true,
                                                                    false,
                                                                    true,
                                                                    true,
                                                                    false)),
                                                                    (String
                                                                    ((Ascii
                                                                    (true,
                                                                    false,
                                                                    true,
                                                                    false,
                                                                    false,
                                                                    true,
                                                                    true,
                                                                    false)),
                                                                    (String
                                                                    ((Ascii
                                                                    (true,
                                                                    true,
                                                                    false,
                                                                    false,
                                                                    true,
                                                                    true,
                                                                    true,
                                                                    false)),
                                                                    (String
                                                                    ((Ascii
                                                                    (true,
                                                                    true,
                                                                    false,
                                                                    false,
                                                                    true,
                                                                    true,
                                                                    true,
                                                                    false)),
                                                                    (String
                                                                    ((Ascii
                                                                    (true,
                                                                    false,
                                                                    false,
                                                                    false,
                                                                    false,
                                                                    true,
                                                                    true,
                                                                    false)),
                                                                    (String
                                                                    ((Ascii
                                                                    (true,
                                                                    true,
                                                                    true,
                                                                    false,
                                                                    false,
                                                                    true,
                                                                    true,
                                                                    false)),
                                                                    (String
                                                                    ((Ascii
                                                                    (true,
                                                                    false,
                                                                    true,
                                                                    false,
                                                                    false,
                                                                    true,
                                                                    true,
                                                                    false)),
                                                                    (String
                                                                    ((Ascii
                                                                    (true,
                                                                    true,
                                                                    false,
                                                                    false,
                                                                    true,
                                                                    true,
                                                                    true,
                                                                    false)),
                                                                    EmptyString))))))))))))))))))))))))))))
                                                                    then 
                                                                    cm
                                                                    (fetch_messages
                                                                    (map
                                                                    fq_of
                                                                    (vlist a0)))
                                                                    responses_view
                                                                    else 
                                                                    if 
                                                                    is_tag op
                                                                    (String
                                                                    ((Ascii
                                                                    (false,
                                                                    false,
                                                                    false,
                                                                    false,
                                                                    true,
                                                                    true,
                                                                    true,
                                                                    false)),
                                                                    (String
                                                                    ((Ascii
                                                                    (false,
                                                                    true,
                                                                    false,
                                                                    false,
                                                                    true,
                                                                    true,
                                                                    true,
                                                                    false)),
                                                                    (String
                                                                    ((Ascii
                                                                    (true,
                                                                    true,
                                                                    true,
                                                                    true,
                                                                    false,
                                                                    true,
                                                                    true,
                                                                    false)),
                                                                    (String
                                                                    ((Ascii
                                                                    (false,
                                                                    false,
                                                                    true,
                                                                    false,
                                                                    false,
                                                                    true,
                                                                    true,
                                                                    false)),
                                                                    (String
                                                                    ((Ascii
                                                                    (true,
                                                                    false,
                                                                    true,
                                                                    false,
                                                                    true,
                                                                    true,
                                                                    true,
                                                                    false)),
                                                                    (String
                                                                    ((Ascii
                                                                    (true,
                                                                    true,
                                                                    false,
                                                                    false,
                                                                    false,
                                                                    true,
                                                                    true,
                                                                    false)),
                                                                    (String
                                                                    ((Ascii
                                                                    (true,
                                                                    false,
                                                                    true,
                                                                    false,
                                                                    false,
                                                                    true,
                                                                    true,
                                                                    false)),
                                                                    (String
                                                                    ((Ascii
                                                                    (true,
                                                                    true,
                                                                    true,
                                                                    true,
                                                                    true,
                                                                    false,
                                                                    true,
                                                                    false)),
                                                                    (String
                                                                    ((Ascii
                                                                    (true,
                                                                    false,
                                                                    true,
                                                                    true,
                                                                    false,
                                                                    true,
                                                                    true,
                                                                    false)),
                                                                    (String
                                                                    ((Ascii
                                                                    (true,
                                                                    false,
                                                                    true,
                                                                    false,
                                                                    false,
                                                                    true,
                                                                    true,
                                                                    false)),
                                                                    (String
                                                                    ((Ascii
                                                                    (true,
                                                                    true,
                                                                    false,
                                                                    false,
                                                                    true,
                                                                    true,
                                                                    true,
                                                                    false)),
                                                                    (String
                                                                    ((Ascii
                                                                    (true,
                                                                    true,
                                                                    false,
                                                                    false,
                                                                    true,
                                                                    true,
                                                                    true,
                                                                    false)),
                                                                    (String
                                                                    ((Ascii
                                                                    (true,
                                                                    false,
                                                                    false,
                                                                    false,
                                                                    false,
                                                                    true,
                                                                    true,
                                                                    false)),
                                                                    (String
                                                                    ((Ascii
                                                                    (true,
                                                                    true,
                                                                    true,
                                                                    false,
                                                                    false,
                                                                    true,
                                                                    true,
                                                                    false)),
                                                                    (String
                                                                    ((Ascii
                                                                    (true,
                                                                    false,
                                                                    true,
                                                                    false,
                                                                    false,
                                                                    true,
                                                                    true,
                                                                    false)),
                                                                    (String
                                                                    ((Ascii
                                                                    (true,
                                                                    true,
                                                                    false,
                                                                    false,
                                                                    true,
                                                                    true,
                                                                    true,
                                                                    false)),
                                                                    EmptyString))))))))))))))))))))))))))))))))
                                                                    then 
                                                                    cm
                                                                    (produce_messages
                                                                    (vint a0)
                                                                    ((vint a1),
                                                                    (vint a2))
                                                                    (map
                                                                    pq_of
                                                                    (vlist a3)))
                                                                    confirms_view
                                                                    else 
                                                                    if 
                                                                    is_tag op
                                                                    (String
                                                                    ((Ascii
                                                                    (true,
                                                                    true,
                                                                    false,
                                                                    false,
                                                                    false,
                                                                    true,
                                                                    true,
                                                                    false)),
                                                                    (String
                                                                    ((Ascii
                                                                    (true,
                                                                    true,
                                                                    true,
                                                                    true,
                                                                    false,
                                                                    true,
                                                                    true,
                                                                    false)),
                                                                    (String
                                                                    ((Ascii
                                                                    (true,
                                                                    false,
                                                                    true,
                                                                    true,
                                                                    false,
                                                                    true,
                                                                    true,
                                                                    false)),
                                                                    (String
                                                                    ((Ascii
                                                                    (true,
                                                                    false,
                                                                    true,
                                                                    true,
                                                                    false,
                                                                    true,
                                                                    true,
                                                                    false)),
                                                                    (String
                                                                    ((Ascii
                                                                    (true,
                                                                    false,
                                                                    false,
                                                                    true,
                                                                    false,
                                                                    true,
                                                                    true,
                                                                    false)),
                                                                    (String
                                                                    ((Ascii
                                                                    (false,
                                                                    false,
                                                                    true,
                                                                    false,
                                                                    true,
                                                                    true,
                                                                    true,
                                                                    false)),
                                                                    (String
                                                                    ((Ascii
                                                                    (true,
                                                                    true,
                                                                    true,
                                                                    true,
                                                                    true,
                                                                    false,
                                                                    true,
                                                                    false)),
                                                                    (String
                                                                    ((Ascii
                                                                    (true,
                                                                    true,
                                                                    true,
                                                                    true,
                                                                    false,
                                                                    true,
                                                                    true,
                                                                    false)),
                                                                    (String
                                                                    ((Ascii
                                                                    (false,
                                                                    true,
                                                                    true,
                                                                    false,
                                                                    false,
                                                                    true,
                                                                    true,
                                                                    false)),
                                                                    (String
                                                                    ((Ascii
                                                                    (false,
                                                                    true,
                                                                    true,
                                                                    false,
                                                                    false,
                                                                    true,
                                                                    true,
                                                                    false)),
                                                                    (String
                                                                    ((Ascii
                                                                    (true,
                                                                    true,
                                                                    false,
                                                                    false,
                                                                    true,
                                                                    true,
                                                                    true,
                                                                    false)),
                                                                    (String
                                                                    ((Ascii
                                                                    (true,
                                                                    false,
                                                                    true,
                                                                    false,
                                                                    false,
                                                                    true,
                                                                    true,
                                                                    false)),
                                                                    (String
                                                                    ((Ascii
                                                                    (false,
                                                                    false,
                                                                    true,
                                                                    false,
                                                                    true,
                                                                    true,
                                                                    true,
                                                                    false)),
                                                                    (String
                                                                    ((Ascii
                                                                    (true,
                                                                    true,
                                                                    false,
                                                                    false,
                                                                    true,
                                                                    true,
                                                                    true,
                                                                    false)),
                                                                    EmptyString))))))))))))))))))))))))))))
                                                                    then 
                                                                    cm
                                                                    (commit_offsets
                                                                    (vbytes
                                                                    a0)
                                                                    (map
                                                                    co_of
                                                                    (vlist a1)))
                                                                    (fun _ ->
                                                                    vunit)
                                                                    else 
                                                                    if 
                                                                    is_tag op
                                                                    (String
                                                                    ((Ascii
                                                                    (false,
                                                                    true,
                                                                    true,
                                                                    false,
                                                                    false,
                                                                    true,
                                                                    true,
                                                                    false)),
                                                                    (String
                                                                    ((Ascii
                                                                    (true,
                                                                    false,
                                                                    true,
                                                                    false,
                                                                    false,
                                                                    true,
                                                                    true,
                                                                    false)),
                                                                    (String
                                                                    ((Ascii
                                                                    (false,
                                                                    false,
                                                                    true,
                                                                    false,
                                                                    true,
                                                                    true,
                                                                    true,
                                                                    false)),
                                                                    (String
                                                                    ((Ascii
                                                                    (true,
                                                                    true,
                                                                    false,
                                                                    false,
                                                                    false,
                                                                    true,
                                                                    true,
                                                                    false)),
                                                                    (String
                                                                    ((Ascii
                                                                    (false,
                                                                    false,
                                                                    false,
                                                                    true,
                                                                    false,
                                                                    true,
                                                                    true,
                                                                    false)),
                                                                    (String
                                                                    ((Ascii
                                                                    (true,
                                                                    true,
                                                                    true,
                                                                    true,
                                                                    true,
                                                                    false,
                                                                    true,
                                                                    false)),
                                                                    (String
                                                                    ((Ascii
                                                                    (true,
                                                                    true,
                                                                    true,
                                                                    false,
                                                                    false,
                                                                    true,
                                                                    true,
                                                                    false)),
                                                                    (String
                                                                    ((Ascii
                                                                    (false,
                                                                    true,
                                                                    false,
                                                                    false,
                                                                    true,
                                                                    true,
                                                                    true,
                                                                    false)),
                                                                    (String
                                                                    ((Ascii
                                                                    (true,
                                                                    true,
                                                                    true,
                                                                    true,
                                                                    false,
                                                                    true,
                                                                    true,
                                                                    false)),
                                                                    (String
                                                                    ((Ascii
                                                                    (true,
                                                                    false,
                                                                    true,
                                                                    false,
                                                                    true,
                                                                    true,
                                                                    true,
                                                                    false)),
                                                                    (String
                                                                    ((Ascii
                                                                    (false,
                                                                    false,
                                                                    false,
                                                                    false,
                                                                    true,
                                                                    true,
                                                                    true,
                                                                    false)),
                                                                    (String
                                                                    ((Ascii
                                                                    (true,
                                                                    true,
                                                                    true,
                                                                    true,
                                                                    true,
                                                                    false,
                                                                    true,
                                                                    false)),
                                                                    (String
                                                                    ((Ascii
                                                                    (true,
                                                                    true,
                                                                    true,
                                                                    true,
                                                                    false,
                                                                    true,
                                                                    true,
                                                                    false)),
                                                                    (String
                                                                    ((Ascii
                                                                    (false,
                                                                    true,
                                                                    true,
                                                                    false,
                                                                    false,
                                                                    true,
                                                                    true,
                                                                    false)),
                                                                    (String
                                                                    ((Ascii
                                                                    (false,
                                                                    true,
                                                                    true,
                                                                    false,
                                                                    false,
                                                                    true,
                                                                    true,
                                                                    false)),
                                                                    (String
                                                                    ((Ascii
                                                                    (true,
                                                                    true,
                                                                    false,
                                                                    false,
                                                                    true,
                                                                    true,
                                                                    true,
                                                                    false)),
                                                                    (String
                                                                    ((Ascii
                                                                    (true,
                                                                    false,
                                                                    true,
                                                                    false,
                                                                    false,
                                                                    true,
                                                                    true,
                                                                    false)),
                                                                    (String
                                                                    ((Ascii
                                                                    (false,
                                                                    false,
                                                                    true,
                                                                    false,
                                                                    true,
                                                                    true,
                                                                    true,
                                                                    false)),
                                                                    (String
                                                                    ((Ascii
                                                                    (true,
                                                                    true,
                                                                    false,
                                                                    false,
                                                                    true,
                                                                    true,
                                                                    true,
                                                                    false)),
                                                                    EmptyString))))))))))))))))))))))))))))))))))))))
                                                                    then 
                                                                    cm
                                                                    (fetch_group_offsets
                                                                    (vbytes
                                                                    a0)
                                                                    (map
                                                                    (fun v ->
                                                                    ((vbytes
                                                                    (varg v O)),
                                                                    (vint
                                                                    (varg v
                                                                    (S O)))))
                                                                    (vlist a1)))
                                                                    offsets_map_view
                                                                    else 
                                                                    if 
                                                                    is_tag op
                                                                    (String
                                                                    ((Ascii
                                                                    (false,
                                                                    true,
                                                                    true,
                                                                    false,
                                                                    false,
                                                                    true,
                                                                    true,
                                                                    false)),
                                                                    (String
                                                                    ((Ascii
                                                                    (true,
                                                                    false,
                                                                    true,
                                                                    false,
                                                                    false,
                                                                    true,
                                                                    true,
                                                                    false)),
                                                                    (String
                                                                    ((Ascii
                                                                    (false,
                                                                    false,
                                                                    true,
                                                                    false,
                                                                    true,
                                                                    true,
                                                                    true,
                                                                    false)),
                                                                    (String
                                                                    ((Ascii
                                                                    (true,
                                                                    true,
                                                                    false,
                                                                    false,
                                                                    false,
                                                                    true,
                                                                    true,
                                                                    false)),
                                                                    (String
                                                                    ((Ascii
                                                                    (false,
                                                                    false,
                                                                    false,
                                                                    true,
                                                                    false,
                                                                    true,
                                                                    true,
                                                                    false)),
                                                                    (String
                                                                    ((Ascii
                                                                    (true,
                                                                    true,
                                                                    true,
                                                                    true,
                                                                    true,
                                                                    false,
                                                                    true,
                                                                    false)),
                                                                    (String
                                                                    ((Ascii
                                                                    (true,
                                                                    true,
                                                                    true,
                                                                    false,
                                                                    false,
                                                                    true,
                                                                    true,
                                                                    false)),
                                                                    (String
                                                                    ((Ascii
                                                                    (false,
                                                                    true,
                                                                    false,
                                                                    false,
                                                                    true,
                                                                    true,
                                                                    true,
                                                                    false)),
                                                                    (String
                                                                    ((Ascii
                                                                    (true,
                                                                    true,
                                                                    true,
                                                                    true,
                                                                    false,
                                                                    true,
                                                                    true,
                                                                    false)),
                                                                    (String
                                                                    ((Ascii
                                                                    (true,
                                                                    false,
                                                                    true,
                                                                    false,
                                                                    true,
                                                                    true,
                                                                    true,
                                                                    false)),
                                                                    (String
                                                                    ((Ascii
                                                                    (false,
                                                                    false,
                                                                    false,
                                                                    false,
                                                                    true,
                                                                    true,
                                                                    true,
                                                                    false)),
                                                                    (String
                                                                    ((Ascii
                                                                    (true,
                                                                    true,
                                                                    true,
                                                                    true,
                                                                    true,
                                                                    false,
                                                                    true,
                                                                    false)),
                                                                    (String
                                                                    ((Ascii
                                                                    (false,
                                                                    false,
                                                                    true,
                                                                    false,
                                                                    true,
                                                                    true,
                                                                    true,
                                                                    false)),
                                                                    (String
                                                                    ((Ascii
                                                                    (true,
                                                                    true,
                                                                    true,
                                                                    true,
                                                                    false,
                                                                    true,
                                                                    true,
                                                                    false)),
                                                                    (String
                                                                    ((Ascii
                                                                    (false,
                                                                    false,
                                                                    false,
                                                                    false,
                                                                    true,
                                                                    true,
                                                                    true,
                                                                    false)),
                                                                    (String
                                                                    ((Ascii
                                                                    (true,
                                                                    false,
                                                                    false,
                                                                    true,
                                                                    false,
                                                                    true,
                                                                    true,
                                                                    false)),
                                                                    (String
                                                                    ((Ascii
                                                                    (true,
                                                                    true,
                                                                    false,
                                                                    false,
                                                                    false,
                                                                    true,
                                                                    true,
                                                                    false)),
                                                                    (String
                                                                    ((Ascii
                                                                    (true,
                                                                    true,
                                                                    true,
                                                                    true,
                                                                    true,
                                                                    false,
                                                                    true,
                                                                    false)),
                                                                    (String
                                                                    ((Ascii
                                                                    (true,
                                                                    true,
                                                                    true,
                                                                    true,
                                                                    false,
                                                                    true,
                                                                    true,
                                                                    false)),
                                                                    (String
                                                                    ((Ascii
                                                                    (false,
                                                                    true,
                                                                    true,
                                                                    false,
                                                                    false,
                                                                    true,
                                                                    true,
                                                                    false)),
                                                                    (String
                                                                    ((Ascii
                                                                    (false,
                                                                    true,
                                                                    true,
                                                                    false,
                                                                    false,
                                                                    true,
                                                                    true,
                                                                    false)),
                                                                    (String
                                                                    ((Ascii
                                                                    (true,
                                                                    true,
                                                                    false,
                                                                    false,
                                                                    true,
                                                                    true,
                                                                    true,
                                                                    false)),
                                                                    (String
                                                                    ((Ascii
                                                                    (true,
                                                                    false,
                                                                    true,
                                                                    false,
                                                                    false,
                                                                    true,
                                                                    true,
                                                                    false)),
                                                                    (String
                                                                    ((Ascii
                                                                    (false,
                                                                    false,
                                                                    true,
                                                                    false,
                                                                    true,
                                                                    true,
                                                                    true,
                                                                    false)),
                                                                    EmptyString))))))))))))))))))))))))))))))))))))))))))))))))
                                                                    then 
                                                                    cm
                                                                    (fetch_group_topic_offset
                                                                    (vbytes
                                                                    a0)
                                                                    (vbytes
                                                                    a1))
                                                                    (fun ps ->
                                                                    VL
                                                                    (map
                                                                    po_val ps))
                                                                    else 
                                                                    if 
                                                                    is_tag op
                                                                    (String
                                                                    ((Ascii
                                                                    (false,
                                                                    false,
                                                                    false,
                                                                    false,
                                                                    true,
                                                                    true,
                                                                    true,
                                                                    false)),
                                                                    (String
                                                                    ((Ascii
                                                                    (false,
                                                                    true,
                                                                    false,
                                                                    false,
                                                                    true,
                                                                    true,
                                                                    true,
                                                                    false)),
                                                                    (String
                                                                    ((Ascii
                                                                    (true,
                                                                    true,
                                                                    true,
                                                                    true,
                                                                    false,
                                                                    true,
                                                                    true,
                                                                    false)),
                                                                    (String
                                                                    ((Ascii
                                                                    (false,
                                                                    false,
                                                                    true,
                                                                    false,
                                                                    false,
                                                                    true,
                                                                    true,
                                                                    false)),
                                                                    (String
                                                                    ((Ascii
                                                                    (true,
                                                                    false,
                                                                    true,
                                                                    false,
                                                                    true,
                                                                    true,
                                                                    true,
                                                                    false)),
                                                                    (String
                                                                    ((Ascii
                                                                    (true,
                                                                    true,
                                                                    false,
                                                                    false,
                                                                    false,
                                                                    true,
                                                                    true,
                                                                    false)),
                                                                    (String
                                                                    ((Ascii
                                                                    (true,
                                                                    false,
                                                                    true,
                                                                    false,
                                                                    false,
                                                                    true,
                                                                    true,
                                                                    false)),
                                                                    (String
                                                                    ((Ascii
                                                                    (false,
                                                                    true,
                                                                    false,
                                                                    false,
                                                                    true,
                                                                    true,
                                                                    true,
                                                                    false)),
                                                                    (String
                                                                    ((Ascii
                                                                    (true,
                                                                    true,
                                                                    true,
                                                                    true,
                                                                    true,
                                                                    false,
                                                                    true,
                                                                    false)),
                                                                    (String
                                                                    ((Ascii
                                                                    (false,
                                                                    true,
                                                                    false,
                                                                    false,
                                                                    false,
                                                                    true,
                                                                    true,
                                                                    false)),
                                                                    (String
                                                                    ((Ascii
                                                                    (true,
                                                                    false,
                                                                    true,
                                                                    false,
                                                                    true,
                                                                    true,
                                                                    true,
                                                                    false)),
                                                                    (String
                                                                    ((Ascii
                                                                    (true,
                                                                    false,
                                                                    false,
                                                                    true,
                                                                    false,
                                                                    true,
                                                                    true,
                                                                    false)),
                                                                    (String
                                                                    ((Ascii
                                                                    (false,
                                                                    false,
                                                                    true,
                                                                    true,
                                                                    false,
                                                                    true,
                                                                    true,
                                                                    false)),
                                                                    (String
                                                                    ((Ascii
                                                                    (false,
                                                                    false,
                                                                    true,
                                                                    false,
                                                                    false,
                                                                    true,
                                                                    true,
                                                                    false)),
                                                                    EmptyString))))))))))))))))))))))))))))
                                                                    then 
                                                                    let src =
                                                                    if 
                                                                    is_tag a0
                                                                    (String
                                                                    ((Ascii
                                                                    (false,
                                                                    true,
                                                                    true,
                                                                    false,
                                                                    false,
                                                                    true,
                                                                    true,
                                                                    false)),
                                                                    (String
                                                                    ((Ascii
                                                                    (false,
                                                                    true,
                                                                    false,
                                                                    false,
                                                                    true,
                                                                    true,
                                                                    true,
                                                                    false)),
                                                                    (String
                                                                    ((Ascii
                                                                    (true,
                                                                    true,
                                                                    true,
                                                                    true,
                                                                    false,
                                                                    true,
                                                                    true,
                                                                    false)),
                                                                    (String
                                                                    ((Ascii
                                                                    (true,
                                                                    false,
                                                                    true,
                                                                    true,
                                                                    false,
                                                                    true,
                                                                    true,
                                                                    false)),
                                                                    (String
                                                                    ((Ascii
                                                                    (true,
                                                                    true,
                                                                    true,
                                                                    true,
                                                                    true,
                                                                    false,
                                                                    true,
                                                                    false)),
                                                                    (String
                                                                    ((Ascii
                                                                    (false,
                                                                    false,
                                                                    false,
                                                                    true,
                                                                    false,
                                                                    true,
                                                                    true,
                                                                    false)),
                                                                    (String
                                                                    ((Ascii
                                                                    (true,
                                                                    true,
                                                                    true,
                                                                    true,
                                                                    false,
                                                                    true,
                                                                    true,
                                                                    false)),
                                                                    (String
                                                                    ((Ascii
                                                                    (true,
                                                                    true,
                                                                    false,
                                                                    false,
                                                                    true,
                                                                    true,
                                                                    true,
                                                                    false)),
                                                                    (String
                                                                    ((Ascii
                                                                    (false,
                                                                    false,
                                                                    true,
                                                                    false,
                                                                    true,
                                                                    true,
                                                                    true,
                                                                    false)),
                                                                    (String
                                                                    ((Ascii
                                                                    (true,
                                                                    true,
                                                                    false,
                                                                    false,
                                                                    true,
                                                                    true,
                                                                    true,
                                                                    false)),
                                                                    EmptyString))))))))))))))))))))
                                                                    then 
                                                                    Inl
                                                                    (map
                                                                    vbytes
                                                                    (vlist
                                                                    (varg a0
                                                                    O)))
                                                                    else 
                                                                    Inr
                                                                    (match 
                                                                    client_of
                                                                    o with
                                                                    | Some c ->
                                                                    c
                                                                    | None ->
                                                                    client_new
                                                                    [])
                                                                    in
                                                                    let c0 =
                                                                    match src with
                                                                    | Inl hs ->
                                                                    client_new
                                                                    hs
                                                                    | Inr c ->
                                                                    c
                                                                    in
                                                                    run ONone
                                                                    c0 e sc
                                                                    hv
                                                                    (producer_create
                                                                    src
                                                                    (map
                                                                    pbuilder_call_of
                                                                    (vlist a1)))
                                                                    (fun _ ->
                                                                    ok_unit)
                                                                    (fun p _ ->
                                                                    OProducer
                                                                    p)
                                                                    (fun _ ->
                                                                    ONone)
                                                                    else 
                                                                    if 
                                                                    is_tag op
                                                                    (String
                                                                    ((Ascii
                                                                    (true,
                                                                    true,
                                                                    false,
                                                                    false,
                                                                    true,
                                                                    true,
                                                                    true,
                                                                    false)),
                                                                    (String
                                                                    ((Ascii
                                                                    (true,
                                                                    false,
                                                                    true,
                                                                    false,
                                                                    false,
                                                                    true,
                                                                    true,
                                                                    false)),
                                                                    (String
                                                                    ((Ascii
                                                                    (false,
                                                                    true,
                                                                    true,
                                                                    true,
                                                                    false,
                                                                    true,
                                                                    true,
                                                                    false)),
                                                                    (String
                                                                    ((Ascii
                                                                    (false,
                                                                    false,
                                                                    true,
                                                                    false,
                                                                    false,
                                                                    true,
                                                                    true,
                                                                    false)),
                                                                    (String
                                                                    ((Ascii
                                                                    (true,
                                                                    true,
                                                                    true,
                                                                    true,
                                                                    true,
                                                                    false,
                                                                    true,
                                                                    false)),
                                                                    (String
                                                                    ((Ascii
                                                                    (true,
                                                                    false,
                                                                    false,
                                                                    false,
                                                                    false,
                                                                    true,
                                                                    true,
                                                                    false)),
                                                                    (String
                                                                    ((Ascii
                                                                    (false,
                                                                    false,
                                                                    true,
                                                                    true,
                                                                    false,
                                                                    true,
                                                                    true,
                                                                    false)),
                                                                    (String
                                                                    ((Ascii
                                                                    (false,
                                                                    false,
                                                                    true,
                                                                    true,
                                                                    false,
                                                                    true,
                                                                    true,
                                                                    false)),
                                                                    EmptyString))))))))))))))))
                                                                    then 
                                                                    (match o with
                                                                    | OProducer p ->
                                                                    let recs =
                                                                    map
                                                                    rec_of
                                                                    (vlist a0)
                                                                    in
                                                                    run o
                                                                    p.p_client
                                                                    e sc hv
                                                                    (producer_send_all
                                                                    p recs)
                                                                    (fun pat ->
                                                                    let (
                                                                    cs0, _) =
                                                                    pat
                                                                    in
                                                                    okv
                                                                    (confirms_view
                                                                    cs0))
                                                                    (fun pat c ->
                                                                    let (
                                                                    _, p') =
                                                                    pat
                                                                    in
                                                                    OProducer
                                                                    (producer_with_client
                                                                    p' c))
                                                                    (fun c ->
                                                                    OProducer
                                                                    (producer_with_client
                                                                    (producer_set_cntr
                                                                    p
                                                                    (cntr_after
                                                                    p
                                                                    p.p_client
                                                                    recs)) c))
                                                                    | _ ->
                                                                    pure o
                                                                    (vt
                                                                    (String
                                                                    ((Ascii
                                                                    (true,
                                                                    false,
                                                                    true,
                                                                    true,
                                                                    false,
                                                                    true,
                                                                    true,
                                                                    false)),
                                                                    (String
                                                                    ((Ascii
                                                                    (true,
                                                                    true,
                                                                    true,
                                                                    true,
                                                                    false,
                                                                    true,
                                                                    true,
                                                                    false)),
                                                                    (String
                                                                    ((Ascii
                                                                    (false,
                                                                    false,
                                                                    true,
                                                                    false,
                                                                    false,
                                                                    true,
                                                                    true,
                                                                    false)),
                                                                    (String
                                                                    ((Ascii
                                                                    (true,
                                                                    false,
                                                                    true,
                                                                    false,
                                                                    false,
                                                                    true,
                                                                    true,
                                                                    false)),
                                                                    (String
                                                                    ((Ascii
                                                                    (false,
                                                                    false,
                                                                    true,
                                                                    true,
                                                                    false,
                                                                    true,
                                                                    true,
                                                                    false)),
                                                                    (String
                                                                    ((Ascii
                                                                    (true,
                                                                    true,
                                                                    true,
                                                                    true,
                                                                    true,
                                                                    false,
                                                                    true,
                                                                    false)),
                                                                    (String
                                                                    ((Ascii
                                                                    (true,
                                                                    false,
                                                                    true,
                                                                    false,
                                                                    false,
                                                                    true,
                                                                    true,
                                                                    false)),
                                                                    (String
                                                                    ((Ascii
                                                                    (false,
                                                                    true,
                                                                    false,
                                                                    false,
                                                                    true,
                                                                    true,
                                                                    true,
                                                                    false)),
                                                                    (String
                                                                    ((Ascii
                                                                    (false,
                                                                    true,
                                                                    false,
                                                                    false,
                                                                    true,
                                                                    true,
                                                                    true,
                                                                    false)),
                                                                    (String
                                                                    ((Ascii
                                                                    (true,
                                                                    true,
                                                                    true,
                                                                    true,
                                                                    false,
                                                                    true,
                                                                    true,
                                                                    false)),
                                                                    (String
                                                                    ((Ascii
                                                                    (false,
                                                                    true,
                                                                    false,
                                                                    false,
                                                                    true,
                                                                    true,
                                                                    true,
                                                                    false)),
                                                                    EmptyString))))))))))))))))))))))
                                                                    []))
                                                                    else 
                                                                    if 
                                                                    is_tag op
                                                                    (String
                                                                    ((Ascii
                                                                    (true,
                                                                    true,
                                                                    false,
                                                                    false,
                                                                    true,
                                                                    true,
                                                                    true,
                                                                    false)),
                                                                    (String
                                                                    ((Ascii
                                                                    (true,
                                                                    false,
                                                                    true,
                                                                    false,
                                                                    false,
                                                                    true,
                                                                    true,
                                                                    false)),
                                                                    (String
                                                                    ((Ascii
                                                                    (false,
                                                                    true,
                                                                    true,
                                                                    true,
                                                                    false,
                                                                    true,
                                                                    true,
                                                                    false)),
                                                                    (String
                                                                    ((Ascii
                                                                    (false,
                                                                    false,
                                                                    true,
                                                                    false,
                                                                    false,
                                                                    true,
                                                                    true,
                                                                    false)),
                                                                    EmptyString))))))))
                                                                    then 
                                                                    (match o with
                                                                    | OProducer p ->
                                                                    let recs =
                                                                    firstn (S
                                                                    O)
                                                                    (map
                                                                    rec_of
                                                                    (vlist a0))
                                                                    in
                                                                    run o
                                                                    p.p_client
                                                                    e sc hv
                                                                    (producer_send
                                                                    p
                                                                    (nth O
                                                                    recs
                                                                    (rec_of
                                                                    (VI Z0))))
                                                                    (fun _ ->
                                                                    ok_unit)
                                                                    (fun p' c ->
                                                                    OProducer
                                                                    (producer_with_client
                                                                    p' c))
                                                                    (fun c ->
                                                                    OProducer
                                                                    (producer_with_client
                                                                    (producer_set_cntr
                                                                    p
                                                                    (cntr_after
                                                                    p
                                                                    p.p_client
                                                                    recs)) c))
                                                                    | _ ->
                                                                    pure o
                                                                    (vt
                                                                    (String
                                                                    ((Ascii
                                                                    (true,
                                                                    false,
                                                                    true,
                                                                    true,
                                                                    false,
                                                                    true,
                                                                    true,
                                                                    false)),
                                                                    (String
                                                                    ((Ascii
                                                                    (true,
                                                                    true,
                                                                    true,
                                                                    true,
                                                                    false,
                                                                    true,
                                                                    true,
                                                                    false)),
                                                                    (String
                                                                    ((Ascii
                                                                    (false,
                                                                    false,
                                                                    true,
                                                                    false,
                                                                    false,
                                                                    true,
                                                                    true,
                                                                    false)),
                                                                    (String
                                                                    ((Ascii
                                                                    (true,
                                                                    false,
                                                                    true,
                                                                    false,
                                                                    false,
                                                                    true,
                                                                    true,
                                                                    false)),
                                                                    (String
                                                                    ((Ascii
                                                                    (false,
                                                                    false,
                                                                    true,
                                                                    true,
                                                                    false,
                                                                    true,
                                                                    true,
                                                                    false)),
                                                                    (String
                                                                    ((Ascii
                                                                    (true,
                                                                    true,
                                                                    true,
                                                                    true,
                                                                    true,
                                                                    false,
                                                                    true,
                                                                    false)),
                                                                    (String
                                                                    ((Ascii
                                                                    (true,
                                                                    false,
                                                                    true,
                                                                    false,
                                                                    false,
                                                                    true,
                                                                    true,
                                                                    false)),
                                                                    (String
                                                                    ((Ascii
                                                                    (false,
                                                                    true,
                                                                    false,
                                                                    false,
                                                                    true,
                                                                    true,
                                                                    true,
                                                                    false)),
                                                                    (String
                                                                    ((Ascii
                                                                    (false,
                                                                    true,
                                                                    false,
                                                                    false,
                                                                    true,
                                                                    true,
                                                                    true,
                                                                    false)),
                                                                    (String
                                                                    ((Ascii
                                                                    (true,
                                                                    true,
                                                                    true,
                                                                    true,
                                                                    false,
                                                                    true,
                                                                    true,
                                                                    false)),
                                                                    (String
                                                                    ((Ascii
                                                                    (false,
                                                                    true,
                                                                    false,
                                                                    false,
                                                                    true,
                                                                    true,
                                                                    true,
                                                                    false)),
                                                                    EmptyString))))))))))))))))))))))
                                                                    []))
                                                                    else 
                                                                    if 
                                                                    is_tag op
                                                                    (String
                                                                    ((Ascii
                                                                    (true,
                                                                    true,
                                                                    false,
                                                                    false,
                                                                    true,
                                                                    true,
                                                                    true,
                                                                    false)),
                                                                    (String
                                                                    ((Ascii
                                                                    (true,
                                                                    false,
                                                                    true,
                                                                    false,
                                                                    false,
                                                                    true,
                                                                    true,
                                                                    false)),
                                                                    (String
                                                                    ((Ascii
                                                                    (false,
                                                                    false,
                                                                    true,
                                                                    false,
                                                                    true,
                                                                    true,
                                                                    true,
                                                                    false)),
                                                                    (String
                                                                    ((Ascii
                                                                    (true,
                                                                    true,
                                                                    true,
                                                                    true,
                                                                    true,
                                                                    false,
                                                                    true,
                                                                    false)),
                                                                    (String
                                                                    ((Ascii
                                                                    (true,
                                                                    true,
                                                                    false,
                                                                    false,
                                                                    false,
                                                                    true,
                                                                    true,
                                                                    false)),
                                                                    (String
                                                                    ((Ascii
                                                                    (false,
                                                                    true,
                                                                    true,
                                                                    true,
                                                                    false,
                                                                    true,
                                                                    true,
                                                                    false)),
                                                                    (String
                                                                    ((Ascii
                                                                    (false,
                                                                    false,
                                                                    true,
                                                                    false,
                                                                    true,
                                                                    true,
                                                                    true,
                                                                    false)),
                                                                    (String
                                                                    ((Ascii
                                                                    (false,
                                                                    true,
                                                                    false,
                                                                    false,
                                                                    true,
                                                                    true,
                                                                    true,
                                                                    false)),
                                                                    EmptyString))))))))))))))))
                                                                    then 
                                                                    (match o with
                                                                    | OProducer p ->
                                                                    pure
                                                                    (OProducer
                                                                    (producer_set_cntr
                                                                    p
                                                                    (vint a0)))
                                                                    ok_unit
                                                                    | _ ->
                                                                    pure o
                                                                    (vt
                                                                    (String
                                                                    ((Ascii
                                                                    (true,
                                                                    false,
                                                                    true,
                                                                    true,
                                                                    false,
                                                                    true,
                                                                    true,
                                                                    false)),
                                                                    (String
                                                                    ((Ascii
                                                                    (true,
                                                                    true,
                                                                    true,
                                                                    true,
                                                                    false,
                                                                    true,
                                                                    true,
                                                                    false)),
                                                                    (String
                                                                    ((Ascii
                                                                    (false,
                                                                    false,
                                                                    true,
                                                                    false,
                                                                    false,
                                                                    true,
                                                                    true,
                                                                    false)),
                                                                    (String
                                                                    ((Ascii
                                                                    (true,
                                                                    false,
                                                                    true,
                                                                    false,
                                                                    false,
                                                                    true,
                                                                    true,
                                                                    false)),
                                                                    (String
                                                                    ((Ascii
                                                                    (false,
                                                                    false,
                                                                    true,
                                                                    true,
                                                                    false,
                                                                    true,
                                                                    true,
                                                                    false)),
                                                                    (String
                                                                    ((Ascii
                                                                    (true,
                                                                    true,
                                                                    true,
                                                                    true,
                                                                    true,
                                                                    false,
                                                                    true,
                                                                    false)),
                                                                    (String
                                                                    ((Ascii
                                                                    (true,
                                                                    false,
                                                                    true,
                                                                    false,
                                                                    false,
                                                                    true,
                                                                    true,
                                                                    false)),
                                                                    (String
                                                                    ((Ascii
                                                                    (false,
                                                                    true,
                                                                    false,
                                                                    false,
                                                                    true,
                                                                    true,
                                                                    true,
                                                                    false)),
                                                                    (String
                                                                    ((Ascii
                                                                    (false,
                                                                    true,
                                                                    false,
                                                                    false,
                                                                    true,
                                                                    true,
                                                                    true,
                                                                    false)),
                                                                    (String
                                                                    ((Ascii
                                                                    (true,
                                                                    true,
                                                                    true,
                                                                    true,
                                                                    false,
                                                                    true,
                                                                    true,
                                                                    false)),
                                                                    (String
                                                                    ((Ascii
                                                                    (false,
                                                                    true,
                                                                    false,
                                                                    false,
                                                                    true,
                                                                    true,
                                                                    true,
                                                                    false)),
                                                                    EmptyString))))))))))))))))))))))
                                                                    []))
                                                                    else 
                                                                    if 
                                                                    is_tag op
                                                                    (String
                                                                    ((Ascii
                                                                    (true,
                                                                    true,
                                                                    false,
                                                                    false,
                                                                    false,
                                                                    true,
                                                                    true,
                                                                    false)),
                                                                    (String
                                                                    ((Ascii
                                                                    (true,
                                                                    true,
                                                                    true,
                                                                    true,
                                                                    false,
                                                                    true,
                                                                    true,
                                                                    false)),
                                                                    (String
                                                                    ((Ascii
                                                                    (false,
                                                                    true,
                                                                    true,
                                                                    true,
                                                                    false,
                                                                    true,
                                                                    true,
                                                                    false)),
                                                                    (String
                                                                    ((Ascii
                                                                    (true,
                                                                    true,
                                                                    false,
                                                                    false,
                                                                    true,
                                                                    true,
                                                                    true,
                                                                    false)),
                                                                    (String
                                                                    ((Ascii
                                                                    (true,
                                                                    false,
                                                                    true,
                                                                    false,
                                                                    true,
                                                                    true,
                                                                    true,
                                                                    false)),
                                                                    (String
                                                                    ((Ascii
                                                                    (true,
                                                                    false,
                                                                    true,
                                                                    true,
                                                                    false,
                                                                    true,
                                                                    true,
                                                                    false)),
                                                                    (String
                                                                    ((Ascii
                                                                    (true,
                                                                    false,
                                                                    true,
                                                                    false,
                                                                    false,
                                                                    true,
                                                                    true,
                                                                    false)),
                                                                    (String
                                                                    ((Ascii
                                                                    (false,
                                                                    true,
                                                                    false,
                                                                    false,
                                                                    true,
                                                                    true,
                                                                    true,
                                                                    false)),
                                                                    (String
                                                                    ((Ascii
                                                                    (true,
                                                                    true,
                                                                    true,
                                                                    true,
                                                                    true,
                                                                    false,
                                                                    true,
                                                                    false)),
                                                                    (String
                                                                    ((Ascii
                                                                    (false,
                                                                    true,
                                                                    false,
                                                                    false,
                                                                    false,
                                                                    true,
                                                                    true,
                                                                    false)),
                                                                    (String
                                                                    ((Ascii
                                                                    (true,
                                                                    false,
                                                                    true,
                                                                    false,
                                                                    true,
                                                                    true,
                                                                    true,
                                                                    false)),
                                                                    (String
                                                                    ((Ascii
                                                                    (true,
                                                                    false,
                                                                    false,
                                                                    true,
                                                                    false,
                                                                    true,
                                                                    true,
                                                                    false)),
                                                                    (String
                                                                    ((Ascii
                                                                    (false,
                                                                    false,
                                                                    true,
                                                                    true,
                                                                    false,
                                                                    true,
                                                                    true,
                                                                    false)),
                                                                    (String
                                                                    ((Ascii
                                                                    (false,
                                                                    false,
                                                                    true,
                                                                    false,
                                                                    false,
                                                                    true,
                                                                    true,
                                                                    false)),
                                                                    EmptyString))))))))))))))))))))))))))))
                                                                    then 
                                                                    let src =
                                                                    if 
                                                                    is_tag a0
                                                                    (String
                                                                    ((Ascii
                                                                    (false,
                                                                    true,
                                                                    true,
                                                                    false,
                                                                    false,
                                                                    true,
                                                                    true,
                                                                    false)),
                                                                    (String
                                                                    ((Ascii
                                                                    (false,
                                                                    true,
                                                                    false,
                                                                    false,
                                                                    true,
                                                                    true,
                                                                    true,
                                                                    false)),
                                                                    (String
                                                                    ((Ascii
                                                                    (true,
                                                                    true,
                                                                    true,
                                                                    true,
                                                                    false,
                                                                    true,
                                                                    true,
                                                                    false)),
                                                                    (String
                                                                    ((Ascii
                                                                    (true,
                                                                    false,
                                                                    true,
                                                                    true,
                                                                    false,
                                                                    true,
                                                                    true,
                                                                    false)),
                                                                    (String
                                                                    ((Ascii
                                                                    (true,
                                                                    true,
                                                                    true,
                                                                    true,
                                                                    true,
                                                                    false,
                                                                    true,
                                                                    false)),
                                                                    (String
                                                                    ((Ascii
                                                                    (false,
                                                                    false,
                                                                    false,
                                                                    true,
                                                                    false,
                                                                    true,
                                                                    true,
                                                                    false)),
                                                                    (String
                                                                    ((Ascii
                                                                    (true,
                                                                    true,
                                                                    true,
                                                                    true,
                                                                    false,
                                                                    true,
                                                                    true,
                                                                    false)),
                                                                    (String
                                                                    ((Ascii
                                                                    (true,
                                                                    true,
                                                                    false,
                                                                    false,
                                                                    true,
                                                                    true,
                                                                    true,
                                                                    false)),
                                                                    (String
                                                                    ((Ascii
                                                                    (false,
                                                                    false,
                                                                    true,
                                                                    false,
                                                                    true,
                                                                    true,
                                                                    true,
                                                                    false)),
                                                                    (String
                                                                    ((Ascii
                                                                    (true,
                                                                    true,
                                                                    false,
                                                                    false,
                                                                    true,
                                                                    true,
                                                                    true,
                                                                    false)),
                                                                    EmptyString))))))))))))))))))))
                                                                    then 
                                                                    Inl
                                                                    (map
                                                                    vbytes
                                                                    (vlist
                                                                    (varg a0
                                                                    O)))
                                                                    else 
                                                                    Inr
                                                                    (match 
                                                                    client_of
                                                                    o with
                                                                    | Some c ->
                                                                    c
                                                                    | None ->
                                                                    client_new
                                                                    [])
                                                                    in
                                                                    let c0 =
                                                                    match src with
                                                                    | Inl hs ->
                                                                    client_new
                                                                    hs
                                                                    | Inr c ->
                                                                    c
                                                                    in
                                                                    run ONone
                                                                    c0 e sc
                                                                    hv
                                                                    (consumer_create
                                                                    src
                                                                    (map
                                                                    builder_call_of
                                                                    (vlist a1)))
                                                                    (fun _ ->
                                                                    ok_unit)
                                                                    (fun k _ ->
                                                                    OConsumer
                                                                    k)
                                                                    (fun _ ->
                                                                    ONone)
                                                                    else 
                                                                    if 
                                                                    is_tag op
                                                                    (String
                                                                    ((Ascii
                                                                    (false,
                                                                    false,
                                                                    false,
                                                                    false,
                                                                    true,
                                                                    true,
                                                                    true,
                                                                    false)),
                                                                    (String
                                                                    ((Ascii
                                                                    (true,
                                                                    true,
                                                                    true,
                                                                    true,
                                                                    false,
                                                                    true,
                                                                    true,
                                                                    false)),
                                                                    (String
                                                                    ((Ascii
                                                                    (false,
                                                                    false,
                                                                    true,
                                                                    true,
                                                                    false,
                                                                    true,
                                                                    true,
                                                                    false)),
                                                                    (String
                                                                    ((Ascii
                                                                    (false,
                                                                    false,
                                                                    true,
                                                                    true,
                                                                    false,
                                                                    true,
                                                                    true,
                                                                    false)),
                                                                    EmptyString))))))))
                                                                    then 
                                                                    (match o with
                                                                    | OConsumer k ->
                                                                    run o
                                                                    k.k_client
                                                                    e sc hv
                                                                    (consumer_poll
                                                                    k)
                                                                    (fun pat ->
                                                                    let (
                                                                    r, _) =
                                                                    pat
                                                                    in
                                                                    res_val
                                                                    messagesets_view
                                                                    r)
                                                                    (fun pat c ->
                                                                    let (
                                                                    r, k') =
                                                                    pat
                                                                    in
                                                                    (
                                                                    match r with
                                                                    | Panic _ ->
                                                                    ONone
                                                                    | _ ->
                                                                    OConsumer
                                                                    (consumer_with_client
                                                                    k' c)))
                                                                    (with_client
                                                                    o)
                                                                    | _ ->
                                                                    pure o
                                                                    (vt
                                                                    (String
                                                                    ((Ascii
                                                                    (true,
                                                                    false,
                                                                    true,
                                                                    true,
                                                                    false,
                                                                    true,
                                                                    true,
                                                                    false)),
                                                                    (String
                                                                    ((Ascii
                                                                    (true,
                                                                    true,
                                                                    true,
                                                                    true,
                                                                    false,
                                                                    true,
                                                                    true,
                                                                    false)),
                                                                    (String
                                                                    ((Ascii
                                                                    (false,
                                                                    false,
                                                                    true,
                                                                    false,
                                                                    false,
                                                                    true,
                                                                    true,
                                                                    false)),
                                                                    (String
                                                                    ((Ascii
                                                                    (true,
                                                                    false,
                                                                    true,
                                                                    false,
                                                                    false,
                                                                    true,
                                                                    true,
                                                                    false)),
                                                                    (String
                                                                    ((Ascii
                                                                    (false,
                                                                    false,
                                                                    true,
                                                                    true,
                                                                    false,
                                                                    true,
                                                                    true,
                                                                    false)),
                                                                    (String
                                                                    ((Ascii
                                                                    (true,
                                                                    true,
                                                                    true,
                                                                    true,
                                                                    true,
                                                                    false,
                                                                    true,
                                                                    false)),
                                                                    (String
                                                                    ((Ascii
                                                                    (true,
                                                                    false,
                                                                    true,
                                                                    false,
                                                                    false,
                                                                    true,
                                                                    true,
                                                                    false)),
                                                                    (String
                                                                    ((Ascii
                                                                    (false,
                                                                    true,
                                                                    false,
                                                                    false,
                                                                    true,
                                                                    true,
                                                                    true,
                                                                    false)),
                                                                    (String
                                                                    ((Ascii
                                                                    (false,
                                                                    true,
                                                                    false,
                                                                    false,
                                                                    true,
                                                                    true,
                                                                    true,
                                                                    false)),
                                                                    (String
                                                                    ((Ascii
                                                                    (true,
                                                                    true,
                                                                    true,
                                                                    true,
                                                                    false,
                                                                    true,
                                                                    true,
                                                                    false)),
                                                                    (String
                                                                    ((Ascii
                                                                    (false,
                                                                    true,
                                                                    false,
                                                                    false,
                                                                    true,
                                                                    true,
                                                                    true,
                                                                    false)),
                                                                    EmptyString))))))))))))))))))))))
                                                                    []))
                                                                    else 
                                                                    if 
                                                                    is_tag op
                                                                    (String
                                                                    ((Ascii
                                                                    (true,
                                                                    true,
                                                                    false,
                                                                    false,
                                                                    false,
                                                                    true,
                                                                    true,
                                                                    false)),
                                                                    (String
                                                                    ((Ascii
                                                                    (true,
                                                                    true,
                                                                    true,
                                                                    true,
                                                                    false,
                                                                    true,
                                                                    true,
                                                                    false)),
                                                                    (String
                                                                    ((Ascii
                                                                    (false,
                                                                    true,
                                                                    true,
                                                                    true,
                                                                    false,
                                                                    true,
                                                                    true,
                                                                    false)),
                                                                    (String
                                                                    ((Ascii
                                                                    (true,
                                                                    true,
                                                                    false,
                                                                    false,
                                                                    true,
                                                                    true,
                                                                    true,
                                                                    false)),
                                                                    (String
                                                                    ((Ascii
                                                                    (true,
                                                                    false,
                                                                    true,
                                                                    false,
                                                                    true,
                                                                    true,
                                                                    true,
                                                                    false)),
                                                                    (String
                                                                    ((Ascii
                                                                    (true,
                                                                    false,
                                                                    true,
                                                                    true,
                                                                    false,
                                                                    true,
                                                                    true,
                                                                    false)),
                                                                    (String
                                                                    ((Ascii
                                                                    (true,
                                                                    false,
                                                                    true,
                                                                    false,
                                                                    false,
                                                                    true,
                                                                    true,
                                                                    false)),
                                                                    (String
                                                                    ((Ascii
                                                                    (false,
                                                                    true,
                                                                    false,
                                                                    false,
                                                                    true,
                                                                    true,
                                                                    true,
                                                                    false)),
                                                                    (String
                                                                    ((Ascii
                                                                    (true,
                                                                    true,
                                                                    true,
                                                                    true,
                                                                    true,
                                                                    false,
                                                                    true,
                                                                    false)),
                                                                    (String
                                                                    ((Ascii
                                                                    (true,
                                                                    true,
                                                                    true,
                                                                    true,
                                                                    false,
                                                                    true,
                                                                    true,
                                                                    false)),
                                                                    (String
                                                                    ((Ascii
                                                                    (false,
                                                                    false,
                                                                    false,
                                                                    false,
                                                                    true,
                                                                    true,
                                                                    true,
                                                                    false)),
                                                                    EmptyString))))))))))))))))))))))
                                                                    then 
                                                                    (match o with
                                                                    | OConsumer k ->
                                                                    if 
                                                                    is_tag a0
                                                                    (String
                                                                    ((Ascii
                                                                    (true,
                                                                    true,
                                                                    false,
                                                                    false,
                                                                    true,
                                                                    true,
                                                                    true,
                                                                    false)),
                                                                    (String
                                                                    ((Ascii
                                                                    (true,
                                                                    false,
                                                                    true,
                                                                    false,
                                                                    false,
                                                                    true,
                                                                    true,
                                                                    false)),
                                                                    (String
                                                                    ((Ascii
                                                                    (true,
                                                                    false,
                                                                    true,
                                                                    false,
                                                                    false,
                                                                    true,
                                                                    true,
                                                                    false)),
                                                                    (String
                                                                    ((Ascii
                                                                    (true,
                                                                    true,
                                                                    false,
                                                                    true,
                                                                    false,
                                                                    true,
                                                                    true,
                                                                    false)),
                                                                    EmptyString))))))))
                                                                    then 
                                                                    let r =
                                                                    consumer_seek
                                                                    k
                                                                    (vbytes
                                                                    (varg a0
                                                                    O))
                                                                    (vint
                                                                    (varg a0
                                                                    (S O)))
                                                                    (vint
                                                                    (varg a0
                                                                    (S (S O))))
                                                                    in
                                                                    pure
                                                                    (match r with
                                                                    | Ok k' ->
                                                                    OConsumer
                                                                    k'
                                                                    | _ -> o)
                                                                    (res_val
                                                                    (fun _ ->
                                                                    vunit) r)
                                                                    else 
                                                                    if 
                                                                    is_tag a0
                                                                    (String
                                                                    ((Ascii
                                                                    (true,
                                                                    true,
                                                                    false,
                                                                    false,
                                                                    false,
                                                                    true,
                                                                    true,
                                                                    false)),
                                                                    (String
                                                                    ((Ascii
                                                                    (true,
                                                                    true,
                                                                    true,
                                                                    true,
                                                                    false,
                                                                    true,
                                                                    true,
                                                                    false)),
                                                                    (String
                                                                    ((Ascii
                                                                    (false,
                                                                    true,
                                                                    true,
                                                                    true,
                                                                    false,
                                                                    true,
                                                                    true,
                                                                    false)),
                                                                    (String
                                                                    ((Ascii
                                                                    (true,
                                                                    true,
                                                                    false,
                                                                    false,
                                                                    true,
                                                                    true,
                                                                    true,
                                                                    false)),
                                                                    (String
                                                                    ((Ascii
                                                                    (true,
                                                                    false,
                                                                    true,
                                                                    false,
                                                                    true,
                                                                    true,
                                                                    true,
                                                                    false)),
                                                                    (String
                                                                    ((Ascii
                                                                    (true,
                                                                    false,
                                                                    true,
                                                                    true,
                                                                    false,
                                                                    true,
                                                                    true,
                                                                    false)),
                                                                    (String
                                                                    ((Ascii
                                                                    (true,
                                                                    false,
                                                                    true,
                                                                    false,
                                                                    false,
                                                                    true,
                                                                    true,
                                                                    false)),
                                                                    (String
                                                                    ((Ascii
                                                                    (true,
                                                                    true,
                                                                    true,
                                                                    true,
                                                                    true,
                                                                    false,
                                                                    true,
                                                                    false)),
                                                                    (String
                                                                    ((Ascii
                                                                    (true,
                                                                    false,
                                                                    true,
                                                                    true,
                                                                    false,
                                                                    true,
                                                                    true,
                                                                    false)),
                                                                    (String
                                                                    ((Ascii
                                                                    (true,
                                                                    false,
                                                                    true,
                                                                    false,
                                                                    false,
                                                                    true,
                                                                    true,
                                                                    false)),
                                                                    (String
                                                                    ((Ascii
                                                                    (true,
                                                                    true,
                                                                    false,
                                                                    false,
                                                                    true,
                                                                    true,
                                                                    true,
                                                                    false)),
                                                                    (String
                                                                    ((Ascii
                                                                    (true,
                                                                    true,
                                                                    false,
                                                                    false,
                                                                    true,
                                                                    true,
                                                                    true,
                                                                    false)),
                                                                    (String
                                                                    ((Ascii
                                                                    (true,
                                                                    false,
                                                                    false,
                                                                    false,
                                                                    false,
                                                                    true,
                                                                    true,
                                                                    false)),
                                                                    (String
                                                                    ((Ascii
                                                                    (true,
                                                                    true,
                                                                    true,
                                                                    false,
                                                                    false,
                                                                    true,
                                                                    true,
                                                                    false)),
                                                                    (String
                                                                    ((Ascii
                                                                    (true,
                                                                    false,
                                                                    true,
                                                                    false,
                                                                    false,
                                                                    true,
                                                                    true,
                                                                    false)),
                                                                    EmptyString))))))))))))))))))))))))))))))
                                                                    then 
                                                                    let r =
                                                                    consume_message
                                                                    k
                                                                    (vbytes
                                                                    (varg a0
                                                                    O))
                                                                    (vint
                                                                    (varg a0
                                                                    (S O)))
                                                                    (vint
                                                                    (varg a0
                                                                    (S (S O))))
                                                                    in
                                                                    pure
                                                                    (match r with
                                                                    | Ok k' ->
                                                                    OConsumer
                                                                    k'
                                                                    | _ -> o)
                                                                    (res_val
                                                                    (fun _ ->
                                                                    vunit) r)
                                                                    else 
                                                                    if 
                                                                    is_tag a0
                                                                    (String
                                                                    ((Ascii
                                                                    (true,
                                                                    true,
                                                                    false,
                                                                    false,
                                                                    false,
                                                                    true,
                                                                    true,
                                                                    false)),
                                                                    (String
                                                                    ((Ascii
                                                                    (true,
                                                                    true,
                                                                    true,
                                                                    true,
                                                                    false,
                                                                    true,
                                                                    true,
                                                                    false)),
                                                                    (String
                                                                    ((Ascii
                                                                    (true,
                                                                    false,
                                                                    true,
                                                                    true,
                                                                    false,
                                                                    true,
                                                                    true,
                                                                    false)),
                                                                    (String
                                                                    ((Ascii
                                                                    (true,
                                                                    false,
                                                                    true,
                                                                    true,
                                                                    false,
                                                                    true,
                                                                    true,
                                                                    false)),
                                                                    (String
                                                                    ((Ascii
                                                                    (true,
                                                                    false,
                                                                    false,
                                                                    true,
                                                                    false,
                                                                    true,
                                                                    true,
                                                                    false)),
                                                                    (String
                                                                    ((Ascii
                                                                    (false,
                                                                    false,
                                                                    true,
                                                                    false,
                                                                    true,
                                                                    true,
                                                                    true,
                                                                    false)),
                                                                    (String
                                                                    ((Ascii
                                                                    (true,
                                                                    true,
                                                                    true,
                                                                    true,
                                                                    true,
                                                                    false,
                                                                    true,
                                                                    false)),
                                                                    (String
                                                                    ((Ascii
                                                                    (true,
                                                                    true,
                                                                    false,
                                                                    false,
                                                                    false,
                                                                    true,
                                                                    true,
                                                                    false)),
                                                                    (String
                                                                    ((Ascii
                                                                    (true,
                                                                    true,
                                                                    true,
                                                                    true,
                                                                    false,
                                                                    true,
                                                                    true,
                                                                    false)),
                                                                    (String
                                                                    ((Ascii
                                                                    (false,
                                                                    true,
                                                                    true,
                                                                    true,
                                                                    false,
                                                                    true,
                                                                    true,
                                                                    false)),
                                                                    (String
                                                                    ((Ascii
                                                                    (true,
                                                                    true,
                                                                    false,
                                                                    false,
                                                                    true,
                                                                    true,
                                                                    true,
                                                                    false)),
                                                                    (String
                                                                    ((Ascii
                                                                    (true,
                                                                    false,
                                                                    true,
                                                                    false,
                                                                    true,
                                                                    true,
                                                                    true,
                                                                    false)),
                                                                    (String
                                                                    ((Ascii
                                                                    (true,
                                                                    false,
                                                                    true,
                                                                    true,
                                                                    false,
                                                                    true,
                                                                    true,
                                                                    false)),
                                                                    (String
                                                                    ((Ascii
                                                                    (true,
                                                                    false,
                                                                    true,
                                                                    false,
                                                                    false,
                                                                    true,
                                                                    true,
                                                                    false)),
                                                                    (String
                                                                    ((Ascii
                                                                    (false,
                                                                    false,
                                                                    true,
                                                                    false,
                                                                    false,
                                                                    true,
                                                                    true,
                                                                    false)),
                                                                    EmptyString))))))))))))))))))))))))))))))
                                                                    then 
                                                                    run o
                                                                    k.k_client
                                                                    e sc hv
                                                                    (commit_consumed
                                                                    k)
                                                                    (fun _ ->
                                                                    ok_unit)
                                                                    (fun k' c ->
                                                                    OConsumer
                                                                    (consumer_with_client
                                                                    k' c))
                                                                    (with_client
                                                                    o)
                                                                    else 
                                                                    if 
                                                                    is_tag a0
                                                                    (String
                                                                    ((Ascii
                                                                    (false,
                                                                    false,
                                                                    true,
                                                                    true,
                                                                    false,
                                                                    true,
                                                                    true,
                                                                    false)),
                                                                    (String
                                                                    ((Ascii
                                                                    (true,
                                                                    false,
                                                                    false,
                                                                    false,
                                                                    false,
                                                                    true,
                                                                    true,
                                                                    false)),
                                                                    (String
                                                                    ((Ascii
                                                                    (true,
                                                                    true,
                                                                    false,
                                                                    false,
                                                                    true,
                                                                    true,
                                                                    true,
                                                                    false)),
                                                                    (String
                                                                    ((Ascii
                                                                    (false,
                                                                    false,
                                                                    true,
                                                                    false,
                                                                    true,
                                                                    true,
                                                                    true,
                                                                    false)),
                                                                    (String
                                                                    ((Ascii
                                                                    (true,
                                                                    true,
                                                                    true,
                                                                    true,
                                                                    true,
                                                                    false,
                                                                    true,
                                                                    false)),
                                                                    (String
                                                                    ((Ascii
                                                                    (true,
                                                                    true,
                                                                    false,
                                                                    false,
                                                                    false,
                                                                    true,
                                                                    true,
                                                                    false)),
                                                                    (String
                                                                    ((Ascii
                                                                    (true,
                                                                    true,
                                                                    true,
                                                                    true,
                                                                    false,
                                                                    true,
                                                                    true,
                                                                    false)),
                                                                    (String
                                                                    ((Ascii
                                                                    (false,
                                                                    true,
                                                                    true,
                                                                    true,
                                                                    false,
                                                                    true,
                                                                    true,
                                                                    false)),
                                                                    (String
                                                                    ((Ascii
                                                                    (true,
                                                                    true,
                                                                    false,
                                                                    false,
                                                                    true,
                                                                    true,
                                                                    true,
                                                                    false)),
                                                                    (String
                                                                    ((Ascii
                                                                    (true,
                                                                    false,
                                                                    true,
                                                                    false,
                                                                    true,
                                                                    true,
                                                                    true,
                                                                    false)),
                                                                    (String
                                                                    ((Ascii
                                                                    (true,
                                                                    false,
                                                                    true,
                                                                    true,
                                                                    false,
                                                                    true,
                                                                    true,
                                                                    false)),
                                                                    (String
                                                                    ((Ascii
                                                                    (true,
                                                                    false,
                                                                    true,
                                                                    false,
                                                                    false,
                                                                    true,
                                                                    true,
                                                                    false)),
                                                                    (String
                                                                    ((Ascii
                                                                    (false,
                                                                    false,
                                                                    true,
                                                                    false,
                                                                    false,
                                                                    true,
                                                                    true,
                                                                    false)),
                                                                    (String
                                                                    ((Ascii
                                                                    (true,
                                                                    true,
                                                                    true,
                                                                    true,
                                                                    true,
                                                                    false,
                                                                    true,
                                                                    false)),
                                                                    (String
                                                                    ((Ascii
                                                                    (true,
                                                                    false,
                                                                    true,
                                                                    true,
                                                                    false,
                                                                    true,
                                                                    true,
                                                                    false)),
                                                                    (String
                                                                    ((Ascii
                                                                    (true,
                                                                    false,
                                                                    true,
                                                                    false,
                                                                    false,
                                                                    true,
                                                                    true,
                                                                    false)),
                                                                    (String
                                                                    ((Ascii
                                                                    (true,
                                                                    true,
                                                                    false,
                                                                    false,
                                                                    true,
                                                                    true,
                                                                    true,
                                                                    false)),
                                                                    (String
                                                                    ((Ascii
                                                                    (true,
                                                                    true,
                                                                    false,
                                                                    false,
                                                                    true,
                                                                    true,
                                                                    true,
                                                                    false)),
                                                                    (String
                                                                    ((Ascii
                                                                    (true,
                                                                    false,
                                                                    false,
                                                                    false,
                                                                    false,
                                                                    true,
                                                                    true,
                                                                    false)),
                                                                    (String
                                                                    ((Ascii
                                                                    (true,
                                                                    true,
                                                                    true,
                                                                    false,
                                                                    false,
                                                                    true,
                                                                    true,
                                                                    false)),
                                                                    (String
                                                                    ((Ascii
                                                                    (true,
                                                                    false,
                                                                    true,
                                                                    false,
                                                                    false,
                                                                    true,
                                                                    true,
                                                                    false)),
                                                                    EmptyString))))))))))))))))))))))))))))))))))))))))))
                                                                    then 
                                                                    pure o
                                                                    (vt
                                                                    (String
                                                                    ((Ascii
                                                                    (true,
                                                                    true,
                                                                    true,
                                                                    true,
                                                                    false,
                                                                    true,
                                                                    true,
                                                                    false)),
                                                                    (String
                                                                    ((Ascii
                                                                    (true,
                                                                    true,
                                                                    false,
                                                                    true,
                                                                    false,
                                                                    true,
                                                                    true,
                                                                    false)),
                                                                    EmptyString))))
                                                                    ((match 
                                                                    last_consumed_message
                                                                    k
                                                                    (vbytes
                                                                    (varg a0
                                                                    O))
                                                                    (vint
                                                                    (varg a0
                                                                    (S O))) with
                                                                    | Some off ->
                                                                    vt
                                                                    (String
                                                                    ((Ascii
                                                                    (true,
                                                                    true,
                                                                    false,
                                                                    false,
                                                                    true,
                                                                    true,
                                                                    true,
                                                                    false)),
                                                                    (String
                                                                    ((Ascii
                                                                    (true,
                                                                    true,
                                                                    true,
                                                                    true,
                                                                    false,
                                                                    true,
                                                                    true,
                                                                    false)),
                                                                    (String
                                                                    ((Ascii
                                                                    (true,
                                                                    false,
                                                                    true,
                                                                    true,
                                                                    false,
                                                                    true,
                                                                    true,
                                                                    false)),
                                                                    (String
                                                                    ((Ascii
                                                                    (true,
                                                                    false,
                                                                    true,
                                                                    false,
                                                                    false,
                                                                    true,
                                                                    true,
                                                                    false)),
                                                                    EmptyString))))))))
                                                                    ((VI
                                                                    off) :: [])
                                                                    | None ->
                                                                    vt
                                                                    (String
                                                                    ((Ascii
                                                                    (false,
                                                                    true,
                                                                    true,
                                                                    true,
                                                                    false,
                                                                    true,
                                                                    true,
                                                                    false)),
                                                                    (String
                                                                    ((Ascii
                                                                    (true,
                                                                    true,
                                                                    true,
                                                                    true,
                                                                    false,
                                                                    true,
                                                                    true,
                                                                    false)),
                                                                    (String
                                                                    ((Ascii
                                                                    (false,
                                                                    true,
                                                                    true,
                                                                    true,
                                                                    false,
                                                                    true,
                                                                    true,
                                                                    false)),
                                                                    (String
                                                                    ((Ascii
                                                                    (true,
                                                                    false,
                                                                    true,
                                                                    false,
                                                                    false,
                                                                    true,
                                                                    true,
                                                                    false)),
                                                                    EmptyString))))))))
                                                                    []) :: []))
                                                                    else 
                                                                    if 
                                                                    is_tag a0
                                                                    (String
                                                                    ((Ascii
                                                                    (true,
                                                                    true,
                                                                    false,
                                                                    false,
                                                                    true,
                                                                    true,
                                                                    true,
                                                                    false)),
                                                                    (String
                                                                    ((Ascii
                                                                    (true,
                                                                    false,
                                                                    true,
                                                                    false,
                                                                    true,
                                                                    true,
                                                                    true,
                                                                    false)),
                                                                    (String
                                                                    ((Ascii
                                                                    (false,
                                                                    true,
                                                                    false,
                                                                    false,
                                                                    false,
                                                                    true,
                                                                    true,
                                                                    false)),
                                                                    (String
                                                                    ((Ascii
                                                                    (true,
                                                                    true,
                                                                    false,
                                                                    false,
                                                                    true,
                                                                    true,
                                                                    true,
                                                                    false)),
                                                                    (String
                                                                    ((Ascii
                                                                    (true,
                                                                    true,
                                                                    false,
                                                                    false,
                                                                    false,
                                                                    true,
                                                                    true,
                                                                    false)),
                                                                    (String
                                                                    ((Ascii
                                                                    (false,
                                                                    true,
                                                                    false,
                                                                    false,
                                                                    true,
                                                                    true,
                                                                    true,
                                                                    false)),
                                                                    (String
                                                                    ((Ascii
                                                                    (true,
                                                                    false,
                                                                    false,
                                                                    true,
                                                                    false,
                                                                    true,
                                                                    true,
                                                                    false)),
                                                                    (String
                                                                    ((Ascii
                                                                    (false,
                                                                    false,
                                                                    false,
                                                                    false,
                                                                    true,
                                                                    true,
                                                                    true,
                                                                    false)),
                                                                    (String
                                                                    ((Ascii
                                                                    (false,
                                                                    false,
                                                                    true,
                                                                    false,
                                                                    true,
                                                                    true,
                                                                    true,
                                                                    false)),
                                                                    (String
                                                                    ((Ascii
                                                                    (true,
                                                                    false,
                                                                    false,
                                                                    true,
                                                                    false,
                                                                    true,
                                                                    true,
                                                                    false)),
                                                                    (String
                                                                    ((Ascii
                                                                    (true,
                                                                    true,
                                                                    true,
                                                                    true,
                                                                    false,
                                                                    true,
                                                                    true,
                                                                    false)),
                                                                    (String
                                                                    ((Ascii
                                                                    (false,
                                                                    true,
                                                                    true,
                                                                    true,
                                                                    false,
                                                                    true,
                                                                    true,
                                                                    false)),
                                                                    (String
                                                                    ((Ascii
                                                                    (true,
                                                                    true,
                                                                    false,
                                                                    false,
                                                                    true,
                                                                    true,
                                                                    true,
                                                                    false)),
                                                                    EmptyString))))))))))))))))))))))))))
                                                                    then 
                                                                    pure o
                                                                    (vt
                                                                    (String
                                                                    ((Ascii
                                                                    (true,
                                                                    true,
                                                                    true,
                                                                    true,
                                                                    false,
                                                                    true,
                                                                    true,
                                                                    false)),
                                                                    (String
                                                                    ((Ascii
                                                                    (true,
                                                                    true,
                                                                    false,
                                                                    true,
                                                                    false,
                                                                    true,
                                                                    true,
                                                                    false)),
                                                                    EmptyString))))
                                                                    ((VL
                                                                    (map
                                                                    (fun pat ->
                                                                    let (
                                                                    t0, ps) =
                                                                    pat
                                                                    in
                                                                    vt
                                                                    (String
                                                                    ((Ascii
                                                                    (false,
                                                                    false,
                                                                    true,
                                                                    false,
                                                                    true,
                                                                    true,
                                                                    true,
                                                                    false)),
                                                                    (String
                                                                    ((Ascii
                                                                    (true,
                                                                    true,
                                                                    true,
                                                                    true,
                                                                    false,
                                                                    true,
                                                                    true,
                                                                    false)),
                                                                    (String
                                                                    ((Ascii
                                                                    (false,
                                                                    false,
                                                                    false,
                                                                    false,
                                                                    true,
                                                                    true,
                                                                    true,
                                                                    false)),
                                                                    (String
                                                                    ((Ascii
                                                                    (true,
                                                                    false,
                                                                    false,
                                                                    true,
                                                                    false,
                                                                    true,
                                                                    true,
                                                                    false)),
                                                                    (String
                                                                    ((Ascii
                                                                    (true,
                                                                    true,
                                                                    false,
                                                                    false,
                                                                    false,
                                                                    true,
                                                                    true,
                                                                    false)),
                                                                    EmptyString))))))))))
                                                                    ((VB
                                                                    t0) :: ((VL
                                                                    (map
                                                                    (fun x ->
                                                                    VI x) ps)) :: [])))
                                                                    (subscriptions
                                                                    k))) :: []))
                                                                    else 
                                                                    if 
                                                                    is_tag a0
                                                                    (String
                                                                    ((Ascii
                                                                    (true,
                                                                    true,
                                                                    true,
                                                                    false,
                                                                    false,
                                                                    true,
                                                                    true,
                                                                    false)),
                                                                    (String
                                                                    ((Ascii
                                                                    (false,
                                                                    true,
                                                                    false,
                                                                    false,
                                                                    true,
                                                                    true,
                                                                    true,
                                                                    false)),
                                                                    (String
                                                                    ((Ascii
                                                                    (true,
                                                                    true,
                                                                    true,
                                                                    true,
                                                                    false,
                                                                    true,
                                                                    true,
                                                                    false)),
                                                                    (String
                                                                    ((Ascii
                                                                    (true,
                                                                    false,
                                                                    true,
                                                                    false,
                                                                    true,
                                                                    true,
                                                                    true,
                                                                    false)),
                                                                    (String
                                                                    ((Ascii
                                                                    (false,
                                                                    false,
                                                                    false,
                                                                    false,
                                                                    true,
                                                                    true,
                                                                    true,
                                                                    false)),
                                                                    EmptyString))))))))))
                                                                    then 
                                                                    pure o
                                                                    (vt
                                                                    (String
                                                                    ((Ascii
                                                                    (true,
                                                                    true,
                                                                    true,
                                                                    true,
                                                                    false,
                                                                    true,
                                                                    true,
                                                                    false)),
                                                                    (String
                                                                    ((Ascii
                                                                    (true,
                                                                    true,
                                                                    false,
                                                                    true,
                                                                    false,
                                                                    true,
                                                                    true,
                                                                    false)),
                                                                    EmptyString))))
                                                                    ((VB
                                                                    k.k_group) :: []))
                                                                    else 
                                                                    pure o
                                                                    (vt
                                                                    (String
                                                                    ((Ascii
                                                                    (true,
                                                                    false,
                                                                    true,
                                                                    true,
                                                                    false,
                                                                    true,
                                                                    true,
                                                                    false)),
                                                                    (String
                                                                    ((Ascii
                                                                    (true,
                                                                    true,
                                                                    true,
                                                                    true,
                                                                    false,
                                                                    true,
                                                                    true,
                                                                    false)),
                                                                    (String
                                                                    ((Ascii
                                                                    (false,
                                                                    false,
                                                                    true,
                                                                    false,
                                                                    false,
                                                                    true,
                                                                    true,
                                                                    false)),
                                                                    (String
                                                                    ((Ascii
                                                                    (true,
                                                                    false,
                                                                    true,
                                                                    false,
                                                                    false,
                                                                    true,
                                                                    true,
                                                                    false)),
                                                                    (String
                                                                    ((Ascii
                                                                    (false,
                                                                    false,
                                                                    true,
                                                                    true,
                                                                    false,
                                                                    true,
                                                                    true,
                                                                    false)),
                                                                    (String
                                                                    ((Ascii
                                                                    (true,
                                                                    true,
                                                                    true,
                                                                    true,
                                                                    true,
                                                                    false,
                                                                    true,
                                                                    false)),
                                                                    (String
                                                                    ((Ascii
                                                                    (true,
                                                                    false,
                                                                    true,
                                                                    false,
                                                                    false,
                                                                    true,
                                                                    true,
                                                                    false)),
                                                                    (String
                                                                    ((Ascii
                                                                    (false,
                                                                    true,
                                                                    false,
                                                                    false,
                                                                    true,
                                                                    true,
                                                                    true,
                                                                    false)),
                                                                    (String
                                                                    ((Ascii
                                                                    (false,
                                                                    true,
                                                                    false,
                                                                    false,
                                                                    true,
                                                                    true,
                                                                    true,
                                                                    false)),
                                                                    (String
                                                                    ((Ascii
                                                                    (true,
                                                                    true,
                                                                    true,
                                                                    true,
                                                                    false,
                                                                    true,
                                                                    true,
                                                                    false)),
                                                                    (String
                                                                    ((Ascii
                                                                    (false,
                                                                    true,
                                                                    false,
                                                                    false,
                                                                    true,
                                                                    true,
                                                                    true,
                                                                    false)),
                                                                    EmptyString))))))))))))))))))))))
                                                                    [])
                                                                    | _ ->
                                                                    pure o
                                                                    (vt
                                                                    (String
                                                                    ((Ascii
                                                                    (true,
                                                                    false,
                                                                    true,
                                                                    true,
                                                                    false,
                                                                    true,
                                                                    true,
                                                                    false)),
                                                                    (String
                                                                    ((Ascii
                                                                    (true,
                                                                    true,
                                                                    true,
                                                                    true,
                                                                    false,
                                                                    true,
                                                                    true,
                                                                    false)),
                                                                    (String
                                                                    ((Ascii
                                                                    (false,
                                                                    false,
                                                                    true,
                                                                    false,
                                                                    false,
                                                                    true,
                                                                    true,
                                                                    false)),
                                                                    (String
                                                                    ((Ascii
                                                                    (true,
                                                                    false,
                                                                    true,
                                                                    false,
                                                                    false,
                                                                    true,
                                                                    true,
                                                                    false)),
                                                                    (String
                                                                    ((Ascii
                                                                    (false,
                                                                    false,
                                                                    true,
                                                                    true,
                                                                    false,
                                                                    true,
                                                                    true,
                                                                    false)),
                                                                    (String
                                                                    ((Ascii
                                                                    (true,
                                                                    true,
                                                                    true,
                                                                    true,
                                                                    true,
                                                                    false,
                                                                    true,
                                                                    false)),
                                                                    (String
                                                                    ((Ascii
                                                                    (true,
                                                                    false,
                                                                    true,
                                                                    false,
                                                                    false,
                                                                    true,
                                                                    true,
                                                                    false)),
                                                                    (String
                                                                    ((Ascii
                                                                    (false,
                                                                    true,
                                                                    false,
                                                                    false,
                                                                    true,
                                                                    true,
                                                                    true,
                                                                    false)),
                                                                    (String
                                                                    ((Ascii
                                                                    (false,
                                                                    true,
                                                                    false,
                                                                    false,
                                                                    true,
                                                                    true,
                                                                    true,
                                                                    false)),
                                                                    (String
                                                                    ((Ascii
                                                                    (true,
                                                                    true,
                                                                    true,
                                                                    true,
                                                                    false,
                                                                    true,
                                                                    true,
                                                                    false)),
                                                                    (String
                                                                    ((Ascii
                                                                    (false,
                                                                    true,
                                                                    false,
                                                                    false,
                                                                    true,
                                                                    true,
                                                                    true,
                                                                    false)),
                                                                    EmptyString))))))))))))))))))))))
                                                                    []))
                                                                    else 
                                                                    pure o
                                                                    (vt
                                                                    (String
                                                                    ((Ascii
                                                                    (true,
                                                                    false,
                                                                    true,
                                                                    true,
                                                                    false,
                                                                    true,
                                                                    true,
                                                                    false)),
                                                                    (String
                                                                    ((Ascii
                                                                    (true,
                                                                    true,
                                                                    true,
                                                                    true,
                                                                    false,
                                                                    true,
                                                                    true,
                                                                    false)),
                                                                    (String
                                                                    ((Ascii
                                                                    (false,
                                                                    false,
                                                                    true,
                                                                    false,
                                                                    false,
                                                                    true,
                                                                    true,
                                                                    false)),
                                                                    (String
                                                                    ((Ascii
                                                                    (true,
                                                                    false,
                                                                    true,
                                                                    false,
                                                                    false,
                                                                    true,
                                                                    true,
                                                                    false)),
                                                                    (String
                                                                    ((Ascii
                                                                    (false,
                                                                    false,
                                                                    true,
                                                                    true,
                                                                    false,
                                                                    true,
                                                                    true,
                                                                    false)),
                                                                    (String
                                                                    ((Ascii
                                                                    (true,
                                                                    true,
                                                                    true,
                                                                    true,
                                                                    true,
                                                                    false,
                                                                    true,
                                                                    false)),
                                                                    (String
                                                                    ((Ascii
                                                                    (true,
                                                                    false,
                                                                    true,
                                                                    false,
                                                                    false,
                                                                    true,
                                                                    true,
                                                                    false)),
                                                                    (String
                                                                    ((Ascii
                                                                    (false,
                                                                    true,
                                                                    false,
                                                                    false,
                                                                    true,
                                                                    true,
                                                                    true,
                                                                    false)),
                                                                    (String
                                                                    ((Ascii
                                                                    (false,
                                                                    true,
                                                                    false,
                                                                    false,
                                                                    true,
                                                                    true,
                                                                    true,
                                                                    false)),
                                                                    (String
                                                                    ((Ascii
                                                                    (true,
                                                                    true,
                                                                    true,
                                                                    true,
                                                                    false,
                                                                    true,
                                                                    true,
                                                                    false)),
                                                                    (String
                                                                    ((Ascii
                                                                    (false,
                                                                    true,
                                                                    false,
                                                                    false,
                                                                    true,
                                                                    true,
                                                                    true,
                                                                    false)),
                                                                    EmptyString))))))))))))))))))))))
                                                                    [])

(** val sp : byte **)

let sp =
  X20

(** val pos_digits : nat -> z -> bytes -> bytes **)

let rec pos_digits fuel n0 acc =
  match fuel with
  | O -> acc
  | S f ->
    let acc' =
      (bZ
        (Z.add (Zpos (XO (XO (XO (XO (XI XH))))))
          (Z.modulo n0 (Zpos (XO (XI (XO XH))))))) :: acc
    in
    if Z.eqb (Z.div n0 (Zpos (XO (XI (XO XH))))) Z0
    then acc'
    else pos_digits f (Z.div n0 (Zpos (XO (XI (XO XH))))) acc'

(** val z_text : z -> bytes **)

let z_text n0 =
  if Z.ltb n0 Z0
  then X2d :: (pos_digits (S (S (S (S (S (S (S (S (S (S (S (S (S (S (S (S (S
                (S (S (S (S (S (S (S (S (S (S (S (S (S (S (S (S (S (S (S (S
                (S (S (S (S (S (S (S (S (S (S (S (S (S (S (S (S (S (S (S (S
                (S (S (S (S (S (S (S (S (S (S (S (S (S (S (S (S (S (S (S (S
                (S (S (S
                O))))))))))))))))))))))))))))))))))))))))))))))))))))))))))))))))))))))))))))))))
                (Z.opp n0) [])
  else pos_digits (S (S (S (S (S (S (S (S (S (S (S (S (S (S (S (S (S (S (S (S
         (S (S (S (S (S (S (S (S (S (S (S (S (S (S (S (S (S (S (S (S (S (S (S
         (S (S (S (S (S (S (S (S (S (S (S (S (S (S (S (S (S (S (S (S (S (S (S
         (S (S (S (S (S (S (S (S (S (S (S (S (S (S
         O))))))))))))))))))))))))))))))))))))))))))))))))))))))))))))))))))))))))))))))))
         n0 []

(** val hexdigit : z -> byte **)

let hexdigit n0 =
  bZ
    (if Z.ltb n0 (Zpos (XO (XI (XO XH))))
     then Z.add (Zpos (XO (XO (XO (XO (XI XH)))))) n0
     else Z.add (Zpos (XI (XI (XI (XO (XI (XO XH))))))) n0)

(** val hex_text : bytes -> bytes -> bytes **)

let rec hex_text bs acc =
  match bs with
  | [] -> acc
  | b :: r ->
    (hexdigit (Z.div (zb b) (Zpos (XO (XO (XO (XO XH))))))) :: ((hexdigit
                                                                  (Z.modulo
                                                                    (zb b)
                                                                    (Zpos (XO
                                                                    (XO (XO
                                                                    (XO
                                                                    XH))))))) :: 
      (hex_text r acc))

(** val val_text : val0 -> bytes -> bytes **)

let rec val_text v acc =
  match v with
  | VI z0 -> app (z_text z0) acc
  | VB b -> X78 :: (hex_text b acc)
  | VL l ->
    X5b :: (let rec go = function
            | [] -> sp :: (X5d :: acc)
            | x :: r -> sp :: (val_text x (go r))
            in go l)
  | VT (n0, l) ->
    X28 :: (sp :: (app n0
                    (let rec go = function
                     | [] -> sp :: (X29 :: acc)
                     | x :: r -> sp :: (val_text x (go r))
                     in go l)))

(** val tokens : bytes -> bytes -> bytes list -> bytes list **)

let rec tokens bs cur acc =
  match bs with
  | [] -> rev (match cur with
               | [] -> acc
               | _ :: _ -> (rev cur) :: acc)
  | b :: r ->
    if (||)
         ((||)
           ((||) (Z.eqb (zb b) (Zpos (XO (XO (XO (XO (XO XH)))))))
             (Z.eqb (zb b) (Zpos (XO (XI (XO XH))))))
           (Z.eqb (zb b) (Zpos (XI (XO (XI XH))))))
         (Z.eqb (zb b) (Zpos (XI (XO (XO XH)))))
    then tokens r [] (match cur with
                      | [] -> acc
                      | _ :: _ -> (rev cur) :: acc)
    else tokens r (b :: cur) acc

(** val hexval : byte -> z **)

let hexval b =
  let x = zb b in
  if Z.ltb x (Zpos (XO (XI (XO (XI (XI XH))))))
  then Z.sub x (Zpos (XO (XO (XO (XO (XI XH))))))
  else if Z.ltb x (Zpos (XI (XI (XI (XO (XO (XO XH)))))))
       then Z.sub x (Zpos (XI (XI (XI (XO (XI XH))))))
       else Z.sub x (Zpos (XI (XI (XI (XO (XI (XO XH)))))))

(** val unhex : bytes -> bytes **)

let rec unhex = function
| [] -> []
| a :: l ->
  (match l with
   | [] -> []
   | b :: r ->
     (bZ (Z.add (Z.mul (Zpos (XO (XO (XO (XO XH))))) (hexval a)) (hexval b))) :: 
       (unhex r))

(** val undec : bytes -> z -> z **)

let rec undec bs acc =
  match bs with
  | [] -> acc
  | b :: r ->
    undec r
      (Z.add (Z.mul acc (Zpos (XO (XI (XO XH)))))
        (Z.sub (zb b) (Zpos (XO (XO (XO (XO (XI XH))))))))

(** val z_of_text : bytes -> z **)

let z_of_text bs = match bs with
| [] -> Z0
| b :: r ->
  if Z.eqb (zb b) (Zpos (XI (XO (XI (XI (XO XH))))))
  then Z.opp (undec r Z0)
  else undec bs Z0

(** val is1 : bytes -> z -> bool **)

let is1 t0 c =
  match t0 with
  | [] -> false
  | b :: l -> (match l with
               | [] -> Z.eqb (zb b) c
               | _ :: _ -> false)

(** val parse_val : nat -> bytes list -> (val0 * bytes list) option **)

let rec parse_val fuel toks =
  match fuel with
  | O -> None
  | S f ->
    (match toks with
     | [] -> None
     | t0 :: r ->
       if is1 t0 (Zpos (XI (XI (XO (XI (XI (XO XH)))))))
       then (match parse_seq f r [] (Zpos (XI (XO (XI (XI (XI (XO XH))))))) with
             | Some p -> let (xs, r') = p in Some ((VL xs), r')
             | None -> None)
       else if is1 t0 (Zpos (XO (XO (XO (XI (XO XH))))))
            then (match r with
                  | [] -> None
                  | name :: r1 ->
                    (match parse_seq f r1 [] (Zpos (XI (XO (XO (XI (XO
                             XH)))))) with
                     | Some p ->
                       let (xs, r') = p in Some ((VT (name, xs)), r')
                     | None -> None))
            else (match t0 with
                  | [] -> None
                  | b :: hex ->
                    if Z.eqb (zb b) (Zpos (XO (XO (XO (XI (XI (XI XH)))))))
                    then Some ((VB (unhex hex)), r)
                    else Some ((VI (z_of_text t0)), r)))

(** val parse_seq :
    nat -> bytes list -> val0 list -> z -> (val0 list * bytes list) option **)

and parse_seq fuel toks acc close =
  match fuel with
  | O -> None
  | S f ->
    (match toks with
     | [] -> None
     | t0 :: r ->
       if is1 t0 close
       then Some ((rev acc), r)
       else (match parse_val f toks with
             | Some p -> let (v, r') = p in parse_seq f r' (v :: acc) close
             | None -> None))

(** val val_of_text : bytes -> val0 option **)

let val_of_text bs =
  let toks = tokens bs [] [] in
  (match parse_val (S (S (length toks))) toks with
   | Some p -> let (v, l) = p in (match l with
                                  | [] -> Some v
                                  | _ :: _ -> None)
   | None -> None)

(** val step : obj -> bytes -> obj * bytes **)

let step o line =
  match val_of_text line with
  | Some v ->
    if is_tag v (String ((Ascii (false, true, false, false, true, true, true,
         false)), (String ((Ascii (true, false, true, false, false, true,
         true, false)), (String ((Ascii (true, true, false, false, true,
         true, true, false)), (String ((Ascii (true, false, true, false,
         false, true, true, false)), (String ((Ascii (false, false, true,
         false, true, true, true, false)), EmptyString))))))))))
    then (ONone,
           (val_text
             (vt (String ((Ascii (true, true, true, true, false, true, true,
               false)), (String ((Ascii (true, false, true, false, true,
               true, true, false)), (String ((Ascii (false, false, true,
               false, true, true, true, false)), EmptyString))))))
               (ok_unit :: ((VL []) :: []))) []))
    else let r =
           dispatch o (varg v O) (varg v (S O)) (varg v (S (S O)))
             (varg v (S (S (S O))))
         in
         (r.o_obj,
         (val_text
           (vt (String ((Ascii (true, true, true, true, false, true, true,
             false)), (String ((Ascii (true, false, true, false, true, true,
             true, false)), (String ((Ascii (false, false, true, false, true,
             true, true, false)), EmptyString)))))) (r.o_result :: ((VL
             (map ev_op_val r.o_trace)) :: []))) []))
  | None ->
    (o,
      (val_text
        (vt (String ((Ascii (false, false, false, false, true, true, true,
          false)), (String ((Ascii (true, false, false, false, false, true,
          true, false)), (String ((Ascii (false, true, false, false, true,
          true, true, false)), (String ((Ascii (true, true, false, false,
          true, true, true, false)), (String ((Ascii (true, false, true,
          false, false, true, true, false)), (String ((Ascii (true, true,
          true, true, true, false, true, false)), (String ((Ascii (true,
          false, true, false, false, true, true, false)), (String ((Ascii
          (false, true, false, false, true, true, true, false)), (String
          ((Ascii (false, true, false, false, true, true, true, false)),
          (String ((Ascii (true, true, true, true, false, true, true,
          false)), (String ((Ascii (false, true, false, false, true, true,
          true, false)), EmptyString)))))))))))))))))))))) []) []))
