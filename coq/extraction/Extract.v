(* Extraction of the executable model for the correspondence check.
   Directives: ExtrOcamlBasic only (bool, option, unit, list, prod, sumbool, sumor as
   OCaml types; andb/orb inlined); positive, N, Z, nat, byte stay extracted inductives;
   no Extract Constant of our own. *)
From Coq Require Extraction ExtrOcamlBasic.
From KV Require Import Model.Text Model.Dispatch.
Extraction Language OCaml.
Cd "extraction".
Extraction "model.ml" step ONone.
