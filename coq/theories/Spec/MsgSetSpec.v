(* Independent reading of the Kafka message format (magic 0) and of message sets as a
   broker stores and serves them.  Written from the protocol guide, not from the client:
     MessageSet => [Offset MessageSize Message]         (no count prefix)
     Message    => Crc MagicByte Attributes Key Value
     Crc        => int32  CRC-32 of MagicByte..Value
     Key, Value => bytes  (int32 length, -1 = null)
   A compressed batch is one wrapper message whose attributes carry the codec (1 gzip,
   2 snappy) and whose value is the compressed serialisation of the inner message set. *)
From KV Require Import Base.Prelude Base.Crc32.

Definition blen (b : bytes) : Z := Z.of_nat (length b).

Definition ser_opt (o : option bytes) : bytes :=
  match o with None => enc_i32 (-1) | Some b => enc_i32 (blen b) ++ b end.

(* the bytes the CRC covers *)
Definition ser_body (attr : Z) (key value : option bytes) : bytes :=
  enc_i8 0 ++ enc_i8 attr ++ ser_opt key ++ ser_opt value.

Definition ser_message (off attr : Z) (key value : option bytes) : bytes :=
  let body := ser_body attr key value in
  enc_i64 off ++ enc_i32 (4 + blen body) ++ enc_i32 (crc32 body) ++ body.

(* what a log holds *)
Inductive entry :=
| Plain (off : Z) (key value : option bytes)
| Wrapper (codec : Z) (off : Z) (inner : list entry).

Section Ser.
  (* the broker-side compressor for codec 1 / 2: any function the decompressors invert *)
  Variable comp : Z -> bytes -> bytes.

  Fixpoint ser_entry (e : entry) : bytes :=
    match e with
    | Plain off k v => ser_message off 0 k v
    | Wrapper c off inner =>
        ser_message off c None
                    (Some (comp c ((fix go (l : list entry) : bytes :=
                                      match l with [] => [] | x :: r => ser_entry x ++ go r end) inner)))
    end.

  Definition ser (es : list entry) : bytes := flat_map ser_entry es.
End Ser.

(* the messages of a log in log order; null keys/values are seen as empty by a reader *)
Definition view_opt (o : option bytes) : bytes := match o with Some b => b | None => [] end.

Fixpoint flatten_entry (e : entry) : list (Z * bytes * bytes) :=
  match e with
  | Plain off k v => [(off, view_opt k, view_opt v)]
  | Wrapper _ _ inner =>
      (fix go (l : list entry) : list (Z * bytes * bytes) :=
         match l with [] => [] | x :: r => flatten_entry x ++ go r end) inner
  end.
Definition flatten (es : list entry) : list (Z * bytes * bytes) := flat_map flatten_entry es.

Fixpoint depth_entry (e : entry) : nat :=
  match e with
  | Plain _ _ _ => O
  | Wrapper _ _ inner =>
      S ((fix go (l : list entry) : nat := match l with [] => O | x :: r => Nat.max (depth_entry x) (go r) end) inner)
  end.
Definition depth (es : list entry) : nat := fold_right (fun e d => Nat.max (depth_entry e) d) O es.

(* ---- strict parser of an uncompressed view (what a broker checks on produce) -------------- *)
Record raw_msg := { rm_offset : Z; rm_attr : Z; rm_key : option bytes; rm_value : option bytes }.

Definition rd (n : nat) (bs : bytes) : option (bytes * bytes) :=
  if Nat.ltb (length bs) n then None else Some (firstn n bs, skipn n bs).

Definition rd_int (n : nat) (bs : bytes) : option (Z * bytes) :=
  match rd n bs with Some (x, r) => Some (be_dec_s x, r) | None => None end.

Definition rd_opt_bytes (bs : bytes) : option (option bytes * bytes) :=
  match rd_int 4 bs with
  | None => None
  | Some (len, r) =>
      if len =? -1 then Some (None, r)
      else if len <? 0 then None
      else if blen r <? len then None
      else Some (Some (firstn (Z.to_nat len) r), skipn (Z.to_nat len) r)
  end.

(* one entry: sizes exact, magic 0, CRC recomputed *)
Definition spec_parse_one (bs : bytes) : option (raw_msg * bytes) :=
  match rd_int 8 bs with
  | None => None
  | Some (off, r1) =>
    match rd_int 4 r1 with
    | None => None
    | Some (size, r2) =>
      if (size <? 14) || (blen r2 <? size) then None
      else
        let msg := firstn (Z.to_nat size) r2 in
        let rest := skipn (Z.to_nat size) r2 in
        match rd 4 msg with
        | None => None
        | Some (crcb, body) =>
          if negb (be_dec_u crcb =? crc32 body) then None
          else
            match rd_int 1 body with
            | None => None
            | Some (magic, b1) =>
              if negb (magic =? 0) then None
              else match rd_int 1 b1 with
                   | None => None
                   | Some (attr, b2) =>
                     match rd_opt_bytes b2 with
                     | None => None
                     | Some (k, b3) =>
                       match rd_opt_bytes b3 with
                       | Some (v, []) => Some ({| rm_offset := off; rm_attr := attr; rm_key := k; rm_value := v |}, rest)
                       | _ => None          (* the message size must cover exactly these fields *)
                       end
                     end
                   end
            end
        end
    end
  end.

Fixpoint spec_parse_go (fuel : nat) (bs : bytes) : option (list raw_msg) :=
  match bs with
  | [] => Some []
  | _ =>
    match fuel with
    | O => None
    | S f => match spec_parse_one bs with
             | None => None
             | Some (m, rest) => match spec_parse_go f rest with Some ms => Some (m :: ms) | None => None end
             end
    end
  end.

(* strict: every byte accounted for *)
Definition spec_parse (bs : bytes) : option (list raw_msg) := spec_parse_go (length bs) bs.
