(* Independent reading of "A Guide To The Kafka Protocol" (the v0 era APIs) for the
   RESPONSE side: abstract syntax of what a broker answers and the printers that put
   it on the wire.  Written from the guide's BNF, not from the client's decoders.

     Response            => CorrelationId ResponseMessage        (after the int32 size prefix)
     CorrelationId       => int32
     intN                => big-endian two's complement, N bits
     string              => int16 length, then that many bytes of UTF-8; length -1 = null
     bytes               => int32 length, then that many bytes;          length -1 = null
     [X]                 => int32 count, then count times X;             count  -1 = null

     MetadataResponse    => [Broker] [TopicMetadata]
       Broker            => NodeId:int32 Host:string Port:int32
       TopicMetadata     => TopicErrorCode:int16 TopicName:string [PartitionMetadata]
       PartitionMetadata => PartitionErrorCode:int16 PartitionId:int32 Leader:int32
                            Replicas:[int32] Isr:[int32]
     OffsetResponse (v0) => [TopicName [Partition:int32 ErrorCode:int16 [Offset:int64]]]
     ListOffsets (v1)    => [TopicName [Partition:int32 ErrorCode:int16 Timestamp:int64 Offset:int64]]
     ProduceResponse(v0) => [TopicName [Partition:int32 ErrorCode:int16 Offset:int64]]
     GroupCoordinatorResponse => ErrorCode:int16 CoordinatorId:int32 CoordinatorHost:string
                                 CoordinatorPort:int32
     OffsetFetchResponse => [TopicName [Partition:int32 Offset:int64 Metadata:string ErrorCode:int16]]
     OffsetCommitResponse=> [TopicName [Partition:int32 ErrorCode:int16]]
     FetchResponse (v0)  => [TopicName [Partition:int32 ErrorCode:int16 HighwaterMarkOffset:int64
                                        MessageSetSize:int32 MessageSet]]

   Every string is an `option bytes` and every array an `option (list _)` here: `None`
   is the null value (length / count -1) that the wire format can express. *)
From KV Require Import Base.Prelude.
From KV Require Base.Utf8.

(* ---- primitive printers ------------------------------------------------------- *)
Definition p_i16 (z : Z) : bytes := be_enc 2 z.
Definition p_i32 (z : Z) : bytes := be_enc 4 z.
Definition p_i64 (z : Z) : bytes := be_enc 8 z.

Definition p_string (s : option bytes) : bytes :=
  match s with
  | None => p_i16 (-1)
  | Some b => p_i16 (Z.of_nat (length b)) ++ b
  end.

Fixpoint p_seq {A} (p : A -> bytes) (xs : list A) : bytes :=
  match xs with [] => [] | x :: r => p x ++ p_seq p r end.

Definition p_array {A} (p : A -> bytes) (xs : option (list A)) : bytes :=
  match xs with
  | None => p_i32 (-1)
  | Some l => p_i32 (Z.of_nat (length l)) ++ p_seq p l
  end.

(* ---- well-formedness of the primitive values --------------------------------------- *)
Definition wf_string (s : option bytes) : Prop :=
  match s with
  | None => True
  | Some b => Utf8.utf8_valid b = true /\ Z.of_nat (length b) <= 32767
  end.

Definition wf_array {A} (wf : A -> Prop) (xs : option (list A)) : Prop :=
  match xs with
  | None => True
  | Some l => Forall wf l /\ Z.of_nat (length l) < 2 ^ 31
  end.

(* ---- Metadata v0 ---------------------------------------------------------------------- *)
Record w_broker := { wb_node : Z; wb_host : option bytes; wb_port : Z }.
Record w_partition_md := { wpm_error : Z; wpm_id : Z; wpm_leader : Z;
                           wpm_replicas : option (list Z); wpm_isr : option (list Z) }.
Record w_topic_md := { wtm_error : Z; wtm_name : option bytes;
                       wtm_partitions : option (list w_partition_md) }.
Record w_metadata := { wm_corr : Z; wm_brokers : option (list w_broker);
                       wm_topics : option (list w_topic_md) }.

Definition print_broker (b : w_broker) : bytes :=
  p_i32 (wb_node b) ++ p_string (wb_host b) ++ p_i32 (wb_port b).
Definition print_partition_md (p : w_partition_md) : bytes :=
  p_i16 (wpm_error p) ++ p_i32 (wpm_id p) ++ p_i32 (wpm_leader p)
  ++ p_array p_i32 (wpm_replicas p) ++ p_array p_i32 (wpm_isr p).
Definition print_topic_md (t : w_topic_md) : bytes :=
  p_i16 (wtm_error t) ++ p_string (wtm_name t) ++ p_array print_partition_md (wtm_partitions t).
Definition print_metadata (m : w_metadata) : bytes :=
  p_i32 (wm_corr m) ++ p_array print_broker (wm_brokers m) ++ p_array print_topic_md (wm_topics m).

Definition wf_broker (b : w_broker) : Prop :=
  in_i32 (wb_node b) /\ wf_string (wb_host b) /\ in_i32 (wb_port b).
Definition wf_partition_md (p : w_partition_md) : Prop :=
  in_i16 (wpm_error p) /\ in_i32 (wpm_id p) /\ in_i32 (wpm_leader p)
  /\ wf_array in_i32 (wpm_replicas p) /\ wf_array in_i32 (wpm_isr p).
Definition wf_topic_md (t : w_topic_md) : Prop :=
  in_i16 (wtm_error t) /\ wf_string (wtm_name t) /\ wf_array wf_partition_md (wtm_partitions t).
Definition wf_metadata (m : w_metadata) : Prop :=
  in_i32 (wm_corr m) /\ wf_array wf_broker (wm_brokers m) /\ wf_array wf_topic_md (wm_topics m).

(* ---- the common shape  CorrelationId [TopicName [P]] ------------------------------------ *)
Record w_topic (P : Type) := { wt_name : option bytes; wt_partitions : option (list P) }.
Arguments wt_name {P} _.
Arguments wt_partitions {P} _.
Record w_topics_resp (P : Type) := { wr_corr : Z; wr_topics : option (list (w_topic P)) }.
Arguments wr_corr {P} _.
Arguments wr_topics {P} _.

Definition print_topic {P} (pp : P -> bytes) (t : w_topic P) : bytes :=
  p_string (wt_name t) ++ p_array pp (wt_partitions t).
Definition print_topics_resp {P} (pp : P -> bytes) (r : w_topics_resp P) : bytes :=
  p_i32 (wr_corr r) ++ p_array (print_topic pp) (wr_topics r).

Definition wf_topic {P} (wfp : P -> Prop) (t : w_topic P) : Prop :=
  wf_string (wt_name t) /\ wf_array wfp (wt_partitions t).
Definition wf_topics_resp {P} (wfp : P -> Prop) (r : w_topics_resp P) : Prop :=
  in_i32 (wr_corr r) /\ wf_array (wf_topic wfp) (wr_topics r).

(* ---- Offsets v0 ---------------------------------------------------------------------------- *)
Record w_offsets_part := { wo_partition : Z; wo_error : Z; wo_offsets : option (list Z) }.
Definition print_offsets_part (p : w_offsets_part) : bytes :=
  p_i32 (wo_partition p) ++ p_i16 (wo_error p) ++ p_array p_i64 (wo_offsets p).
Definition wf_offsets_part (p : w_offsets_part) : Prop :=
  in_i32 (wo_partition p) /\ in_i16 (wo_error p) /\ wf_array in_i64 (wo_offsets p).
Definition print_offsets := print_topics_resp print_offsets_part.
Definition wf_offsets := wf_topics_resp wf_offsets_part.

(* ---- ListOffsets v1 -------------------------------------------------------------------------- *)
Record w_list_offsets_part := { wl_partition : Z; wl_error : Z; wl_timestamp : Z; wl_offset : Z }.
Definition print_list_offsets_part (p : w_list_offsets_part) : bytes :=
  p_i32 (wl_partition p) ++ p_i16 (wl_error p) ++ p_i64 (wl_timestamp p) ++ p_i64 (wl_offset p).
Definition wf_list_offsets_part (p : w_list_offsets_part) : Prop :=
  in_i32 (wl_partition p) /\ in_i16 (wl_error p) /\ in_i64 (wl_timestamp p) /\ in_i64 (wl_offset p).
Definition print_list_offsets := print_topics_resp print_list_offsets_part.
Definition wf_list_offsets := wf_topics_resp wf_list_offsets_part.

(* ---- Produce v0 --------------------------------------------------------------------------------- *)
Record w_produce_part := { wpr_partition : Z; wpr_error : Z; wpr_offset : Z }.
Definition print_produce_part (p : w_produce_part) : bytes :=
  p_i32 (wpr_partition p) ++ p_i16 (wpr_error p) ++ p_i64 (wpr_offset p).
Definition wf_produce_part (p : w_produce_part) : Prop :=
  in_i32 (wpr_partition p) /\ in_i16 (wpr_error p) /\ in_i64 (wpr_offset p).
Definition print_produce := print_topics_resp print_produce_part.
Definition wf_produce := wf_topics_resp wf_produce_part.

(* ---- GroupCoordinator v0 ------------------------------------------------------------------------- *)
Record w_coordinator := { wc_corr : Z; wc_error : Z; wc_id : Z; wc_host : option bytes; wc_port : Z }.
Definition print_coordinator (c : w_coordinator) : bytes :=
  p_i32 (wc_corr c) ++ p_i16 (wc_error c) ++ p_i32 (wc_id c) ++ p_string (wc_host c) ++ p_i32 (wc_port c).
Definition wf_coordinator (c : w_coordinator) : Prop :=
  in_i32 (wc_corr c) /\ in_i16 (wc_error c) /\ in_i32 (wc_id c) /\ wf_string (wc_host c) /\ in_i32 (wc_port c).

(* ---- OffsetFetch v0 / v1 (same layout) ---------------------------------------------------------------- *)
Record w_offset_fetch_part := { wof_partition : Z; wof_offset : Z; wof_metadata : option bytes; wof_error : Z }.
Definition print_offset_fetch_part (p : w_offset_fetch_part) : bytes :=
  p_i32 (wof_partition p) ++ p_i64 (wof_offset p) ++ p_string (wof_metadata p) ++ p_i16 (wof_error p).
Definition wf_offset_fetch_part (p : w_offset_fetch_part) : Prop :=
  in_i32 (wof_partition p) /\ in_i64 (wof_offset p) /\ wf_string (wof_metadata p) /\ in_i16 (wof_error p).
Definition print_offset_fetch := print_topics_resp print_offset_fetch_part.
Definition wf_offset_fetch := wf_topics_resp wf_offset_fetch_part.

(* ---- OffsetCommit v0 / v1 / v2 (same layout) ------------------------------------------------------------ *)
Record w_offset_commit_part := { wcm_partition : Z; wcm_error : Z }.
Definition print_offset_commit_part (p : w_offset_commit_part) : bytes :=
  p_i32 (wcm_partition p) ++ p_i16 (wcm_error p).
Definition wf_offset_commit_part (p : w_offset_commit_part) : Prop :=
  in_i32 (wcm_partition p) /\ in_i16 (wcm_error p).
Definition print_offset_commit := print_topics_resp print_offset_commit_part.
Definition wf_offset_commit := wf_topics_resp wf_offset_commit_part.

(* ---- Fetch v0 ----------------------------------------------------------------------------------------------- *)
(* the message set is carried as the raw bytes the broker copies out of its log;
   MessageSetSize is their number *)
Record w_fetch_part := { wfe_partition : Z; wfe_error : Z; wfe_highwater : Z; wfe_message_set : bytes }.
Definition print_fetch_part (p : w_fetch_part) : bytes :=
  p_i32 (wfe_partition p) ++ p_i16 (wfe_error p) ++ p_i64 (wfe_highwater p)
  ++ p_i32 (Z.of_nat (length (wfe_message_set p))) ++ wfe_message_set p.
Definition wf_fetch_part (p : w_fetch_part) : Prop :=
  in_i32 (wfe_partition p) /\ in_i16 (wfe_error p) /\ in_i64 (wfe_highwater p)
  /\ Z.of_nat (length (wfe_message_set p)) < 2 ^ 31.
Definition print_fetch := print_topics_resp print_fetch_part.
Definition wf_fetch := wf_topics_resp wf_fetch_part.

(* ---- sanity: a few wire images checked against hand-assembled bytes ------------------------------------------- *)
Example p_string_null : p_string None = [xff; xff]. Proof. reflexivity. Qed.
Example p_string_ab : p_string (Some [x61; x62]) = [x00; x02; x61; x62]. Proof. reflexivity. Qed.
Example p_array_null : p_array p_i32 None = [xff; xff; xff; xff]. Proof. reflexivity. Qed.
Example p_array_two : p_array p_i16 (Some [1; -2]) = [x00; x00; x00; x02; x00; x01; xff; xfe].
Proof. reflexivity. Qed.
Example print_coordinator_ex :
  print_coordinator {| wc_corr := 7; wc_error := 0; wc_id := 1; wc_host := Some [x68]; wc_port := 9092 |}
  = [x00; x00; x00; x07;  x00; x00;  x00; x00; x00; x01;  x00; x01; x68;  x00; x00; x23; x84].
Proof. reflexivity. Qed.
Example print_produce_ex :
  print_produce {| wr_corr := 1; wr_topics := Some [ {| wt_name := Some [x74];
                      wt_partitions := Some [ {| wpr_partition := 0; wpr_error := 0; wpr_offset := 5 |} ] |} ] |}
  = [x00; x00; x00; x01;  x00; x00; x00; x01;  x00; x01; x74;  x00; x00; x00; x01;
     x00; x00; x00; x00;  x00; x00;  x00; x00; x00; x00; x00; x00; x00; x05].
Proof. reflexivity. Qed.
