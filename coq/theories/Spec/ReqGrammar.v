(* Independent reading of "A Guide To The Kafka Protocol" (the 0.8/0.9 era request
   formats) as *parsers*: what a broker is entitled to expect on the wire.  Written from
   the guide, not from the client.

     RequestOrResponse => Size (RequestMessage | ResponseMessage)
       Size            => int32                 number of bytes that follow
     RequestMessage    => ApiKey ApiVersion CorrelationId ClientId <Api>Request
       ApiKey, ApiVersion => int16     CorrelationId => int32     ClientId => string

   Primitive types: intN are big-endian two's complement; `string` is an int16 length N
   followed by N bytes, N = -1 meaning null; `bytes` is an int32 length followed by that
   many bytes; an array [T] is an int32 count N followed by N repetitions of T.

   Everything is a function  bytes -> option (value * unconsumed rest) ; nothing here
   mentions the client's encoders. *)
From KV Require Import Base.Prelude.

Definition parser (A : Type) := bytes -> option (A * bytes).

Definition p_ret {A} (a : A) : parser A := fun bs => Some (a, bs).
Definition p_fail {A} : parser A := fun _ => None.
Definition p_bind {A B} (p : parser A) (f : A -> parser B) : parser B :=
  fun bs => match p bs with Some (a, r) => f a r | None => None end.
Notation "'let?' x ':=' p 'in' q" := (p_bind p (fun x => q))
  (at level 200, x name, p at level 100, q at level 200, right associativity).

(* ---- primitive types ---------------------------------------------------- *)

(* exactly n bytes, n a small constant *)
Definition p_take (n : nat) : parser bytes := fun bs =>
  if Nat.ltb (length bs) n then None else Some (firstn n bs, skipn n bs).

(* exactly n bytes, n read off the wire: compared as integers first *)
Definition p_take_z (n : Z) : parser bytes := fun bs =>
  if (n <? 0) || (Z.of_nat (length bs) <? n) then None
  else Some (firstn (Z.to_nat n) bs, skipn (Z.to_nat n) bs).

Definition p_int (width : nat) : parser Z := let? x := p_take width in p_ret (be_dec_s x).
Definition p_i8 : parser Z := p_int 1.
Definition p_i16 : parser Z := p_int 2.
Definition p_i32 : parser Z := p_int 4.
Definition p_i64 : parser Z := p_int 8.

(* string: int16 length; -1 is the null string; any other negative length is malformed *)
Definition p_string : parser (option bytes) :=
  let? n := p_i16 in
  if n =? -1 then p_ret None
  else let? s := p_take_z n in p_ret (Some s).

(* a string in a position where the guide does not allow null (topic, group, member id) *)
Definition p_str : parser bytes :=
  let? o := p_string in match o with Some s => p_ret s | None => p_fail end.

(* an int32 size followed by exactly that many bytes (MessageSetSize MessageSet) *)
Definition p_sized : parser bytes := let? n := p_i32 in p_take_z n.

(* `count` repetitions of p.  Every element of every array in these APIs occupies at
   least one byte, so the number of bytes remaining bounds the count: that is the fuel. *)
Fixpoint p_seq {A} (p : parser A) (fuel : nat) (count : Z) : parser (list A) := fun bs =>
  if count =? 0 then Some ([], bs)
  else match fuel with
       | O => None
       | S f =>
           match p bs with
           | None => None
           | Some (x, r) =>
               match p_seq p f (count - 1) r with
               | None => None
               | Some (xs, r') => Some (x :: xs, r')
               end
           end
       end.

(* array: int32 count N >= 0, then N elements *)
Definition p_array {A} (p : parser A) : parser (list A) := fun bs =>
  match p_i32 bs with
  | None => None
  | Some (n, r) => if n <? 0 then None else p_seq p (length r) n r
  end.

(* ---- request header ---------------------------------------------------------- *)

Record hdr := {
  api_key : Z;
  api_version : Z;
  correlation_id : Z;
  client_id : option bytes;
}.

Definition p_header : parser hdr :=
  let? k := p_i16 in let? v := p_i16 in let? c := p_i32 in let? cid := p_string in
  p_ret {| api_key := k; api_version := v; correlation_id := c; client_id := cid |}.

(* ---- request bodies ------------------------------------------------------------ *)

(* Most requests carry  [TopicName [<per partition entry>]] *)
Definition by_topic (P : Type) := list (bytes * list P).

Definition p_by_topic {P} (pp : parser P) : parser (by_topic P) :=
  p_array (let? t := p_str in let? ps := p_array pp in p_ret (t, ps)).

Inductive req_body :=
(* TopicMetadataRequest => [TopicName] *)
| MetadataRequest (topics : list bytes)
(* OffsetRequest => ReplicaId [TopicName [Partition Time MaxNumberOfOffsets]] *)
| OffsetRequest (replica_id : Z) (topics : by_topic (Z * Z * Z))
(* ListOffsetRequest v1 => ReplicaId [TopicName [Partition Time]] *)
| ListOffsetRequestV1 (replica_id : Z) (topics : by_topic (Z * Z))
(* FetchRequest => ReplicaId MaxWaitTime MinBytes [TopicName [Partition FetchOffset MaxBytes]] *)
| FetchRequest (replica_id max_wait_time min_bytes : Z) (topics : by_topic (Z * Z * Z))
(* ProduceRequest => RequiredAcks Timeout [TopicName [Partition MessageSetSize MessageSet]] *)
| ProduceRequest (required_acks timeout : Z) (topics : by_topic (Z * bytes))
(* GroupCoordinatorRequest => GroupId *)
| GroupCoordinatorRequest (group : bytes)
(* OffsetFetchRequest (v0 and v1 share the layout) => ConsumerGroup [TopicName [Partition]] *)
| OffsetFetchRequest (group : bytes) (topics : by_topic Z)
(* v0 => ConsumerGroupId [TopicName [Partition Offset Metadata]] *)
| OffsetCommitRequestV0 (group : bytes) (topics : by_topic (Z * Z * option bytes))
(* v1 => ConsumerGroupId ConsumerGroupGenerationId ConsumerId
         [TopicName [Partition Offset TimeStamp Metadata]] *)
| OffsetCommitRequestV1 (group : bytes) (generation_id : Z) (member_id : bytes)
                        (topics : by_topic (Z * Z * Z * option bytes))
(* v2 => ConsumerGroupId ConsumerGroupGenerationId ConsumerId RetentionTime
         [TopicName [Partition Offset Metadata]] *)
| OffsetCommitRequestV2 (group : bytes) (generation_id : Z) (member_id : bytes) (retention_time : Z)
                        (topics : by_topic (Z * Z * option bytes)).

Definition p_metadata_v0 : parser req_body :=
  let? ts := p_array p_str in p_ret (MetadataRequest ts).

Definition p_offsets_v0 : parser req_body :=
  let? replica := p_i32 in
  let? ts := p_by_topic (let? p := p_i32 in let? time := p_i64 in let? maxn := p_i32 in p_ret (p, time, maxn)) in
  p_ret (OffsetRequest replica ts).

Definition p_list_offsets_v1 : parser req_body :=
  let? replica := p_i32 in
  let? ts := p_by_topic (let? p := p_i32 in let? time := p_i64 in p_ret (p, time)) in
  p_ret (ListOffsetRequestV1 replica ts).

Definition p_fetch_v0 : parser req_body :=
  let? replica := p_i32 in let? max_wait := p_i32 in let? min_bytes := p_i32 in
  let? ts := p_by_topic (let? p := p_i32 in let? off := p_i64 in let? maxb := p_i32 in p_ret (p, off, maxb)) in
  p_ret (FetchRequest replica max_wait min_bytes ts).

Definition p_produce_v0 : parser req_body :=
  let? acks := p_i16 in let? timeout := p_i32 in
  let? ts := p_by_topic (let? p := p_i32 in let? ms := p_sized in p_ret (p, ms)) in
  p_ret (ProduceRequest acks timeout ts).

Definition p_group_coordinator_v0 : parser req_body :=
  let? g := p_str in p_ret (GroupCoordinatorRequest g).

Definition p_offset_fetch : parser req_body :=
  let? g := p_str in let? ts := p_by_topic p_i32 in p_ret (OffsetFetchRequest g ts).

Definition p_offset_commit_v0 : parser req_body :=
  let? g := p_str in
  let? ts := p_by_topic (let? p := p_i32 in let? off := p_i64 in let? md := p_string in p_ret (p, off, md)) in
  p_ret (OffsetCommitRequestV0 g ts).

Definition p_offset_commit_v1 : parser req_body :=
  let? g := p_str in let? gen := p_i32 in let? member := p_str in
  let? ts := p_by_topic (let? p := p_i32 in let? off := p_i64 in let? stamp := p_i64 in let? md := p_string in p_ret (p, off, stamp, md)) in
  p_ret (OffsetCommitRequestV1 g gen member ts).

Definition p_offset_commit_v2 : parser req_body :=
  let? g := p_str in let? gen := p_i32 in let? member := p_str in let? retention := p_i64 in
  let? ts := p_by_topic (let? p := p_i32 in let? off := p_i64 in let? md := p_string in p_ret (p, off, md)) in
  p_ret (OffsetCommitRequestV2 g gen member retention ts).

(* ---- dispatch -------------------------------------------------------------------- *)

Definition p_body (key version : Z) : parser req_body :=
  match key, version with
  | 0, 0 => p_produce_v0
  | 1, 0 => p_fetch_v0
  | 2, 0 => p_offsets_v0
  | 2, 1 => p_list_offsets_v1
  | 3, 0 => p_metadata_v0
  | 8, 0 => p_offset_commit_v0
  | 8, 1 => p_offset_commit_v1
  | 8, 2 => p_offset_commit_v2
  | 9, 0 => p_offset_fetch
  | 9, 1 => p_offset_fetch
  | 10, 0 => p_group_coordinator_v0
  | _, _ => p_fail
  end.

(* header, then the body the header announces; returns what is left over *)
Definition parse_request (bs : bytes) : option (hdr * req_body * bytes) :=
  match p_header bs with
  | None => None
  | Some (h, r) =>
      match p_body (api_key h) (api_version h) r with
      | None => None
      | Some (b, rest) => Some (h, b, rest)
      end
  end.

(* Size prefix: exactly Size bytes follow, and the request occupies all of them *)
Definition parse_frame (bs : bytes) : option (hdr * req_body) :=
  match p_i32 bs with
  | None => None
  | Some (size, r) =>
      if (0 <=? size) && (Z.of_nat (length r) =? size)
      then match parse_request r with
           | Some (h, b, []) => Some (h, b)
           | _ => None
           end
      else None
  end.
