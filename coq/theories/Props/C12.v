(* C12: default partitioner - explicit kept, keyed = XXH32(key, seed 0) mod N, keyless rotates.
   Statements only; proofs in Proofs/C12Facts.v.  XXH32 is Base/Xxh32.v (xxHash specification,
   published test vectors checked there). *)
From Coq Require Import Sorting.Permutation.
From KV Require Import Base.Prelude Base.Xxh32 Model.Codecs Model.Responses Model.ClientState Model.Producer
                       Proofs.C12Facts.

Theorem C12_explicit : forall parts cntr topic p key, 0 <= p -> partition parts cntr topic p key = (p, cntr).
Proof. exact C12Facts.C12_explicit. Qed.

Theorem C12_keyed : forall parts cntr topic p k ps,
  p < 0 -> assoc_bytes topic parts = Some ps -> 0 < num_all ps <= 2147483648 ->
  partition parts cntr topic p (Some k) = (xxh32 0 k mod num_all ps, cntr)
  /\ 0 <= xxh32 0 k mod num_all ps < num_all ps.
Proof. exact C12Facts.C12_keyed. Qed.

(* a pure function of key and partition count: no dependence on counter, availability, history, instance *)
Theorem C12_keyed_pure : forall parts parts' cntr cntr' topic p k ps ps',
  p < 0 -> assoc_bytes topic parts = Some ps -> assoc_bytes topic parts' = Some ps' -> num_all ps = num_all ps' ->
  fst (partition parts cntr topic p (Some k)) = fst (partition parts' cntr' topic p (Some k)).
Proof. exact C12Facts.C12_keyed_pure. Qed.

Theorem C12_keyed_same_across_producers : forall s s' cntr cntr' topic p k l l',
  p < 0 -> partitions_for s topic = Some l -> partitions_for s' topic = Some l' -> length l = length l' ->
  fst (partition (producer_state s) cntr topic p (Some k)) = fst (partition (producer_state s') cntr' topic p (Some k)).
Proof. exact C12Facts.C12_keyed_same_across_producers. Qed.

Theorem C12_keyless : forall parts cntr topic p ps a av,
  p < 0 -> assoc_bytes topic parts = Some ps -> available_ids ps = a :: av -> 0 <= cntr ->
  partition parts cntr topic p None
  = (nth (Z.to_nat (cntr mod ulen (a :: av))) (a :: av) a, (cntr + 1) mod 4294967296)
  /\ In (fst (partition parts cntr topic p None)) (a :: av).
Proof. exact C12Facts.C12_keyless. Qed.

Theorem C12_keyless_has_leader : forall s cntr topic p ps,
  p < 0 -> assoc_bytes topic (producer_state s) = Some ps -> available_ids ps <> [] -> 0 <= cntr ->
  exists host, find_broker s topic (fst (partition (producer_state s) cntr topic p None)) = Some host.
Proof. exact C12Facts.C12_keyless_has_leader. Qed.

(* a window of |available| consecutive keyless records of one topic that does not cross the
   2^32 wrap of the counter visits every available partition exactly once *)
Theorem C12_rotation : forall parts cntr topic ps av,
  assoc_bytes topic parts = Some ps -> available_ids ps = av -> av <> [] ->
  0 <= cntr -> cntr + ulen av <= 4294967296 ->
  Permutation (fst (keyless_run parts cntr topic (length av))) av.
Proof. exact C12Facts.C12_rotation. Qed.

Theorem C12_unknown : forall parts cntr topic p key,
  p < 0 -> assoc_bytes topic parts = None -> partition parts cntr topic p key = (p, cntr).
Proof. exact C12Facts.C12_unknown. Qed.

Theorem C12_unassigned_rejected : forall s parts cntr recs reqs r rest,
  recs = r :: rest -> fst (partition parts cntr (r_topic r) (r_partition r) (to_option (r_key r))) < 0 ->
  fst (send_all_reqs s parts cntr recs reqs) = None.
Proof. exact C12Facts.C12_unassigned_rejected. Qed.

(* what the property's wording asks beyond that does not hold: the counter is one per
   partitioner, shared by all topics (known finding), and wraps at 2^32 *)
Theorem C12_rotation_shared_counter_refuted : exists parts t1 t2 ps1 ps2, t1 <> t2 /\
   assoc_bytes t1 parts = Some ps1 /\ available_ids ps1 = [0; 1] /\
   assoc_bytes t2 parts = Some ps2 /\ available_ids ps2 = [0; 1] /\
   fst (keyless_seq parts 0 [t1; t2; t1; t2; t1; t2]) = [0; 1; 0; 1; 0; 1].
Proof. exact C12Facts.C12_rotation_shared_counter_refuted. Qed.

Theorem C12_wrap_refuted : exists parts cntr topic ps av, assoc_bytes topic parts = Some ps /\ available_ids ps = av /\
   av <> [] /\ length av = 3%nat /\ 0 <= cntr < 4294967296 /\
   fst (keyless_run parts cntr topic (length av)) = [0; 0; 1] /\
   ~ Permutation (fst (keyless_run parts cntr topic (length av))) av.
Proof. exact C12Facts.C12_wrap_refuted. Qed.

Print Assumptions C12_explicit.
Print Assumptions C12_keyed.
Print Assumptions C12_keyed_pure.
Print Assumptions C12_keyed_same_across_producers.
Print Assumptions C12_keyless.
Print Assumptions C12_keyless_has_leader.
Print Assumptions C12_rotation.
Print Assumptions C12_unknown.
Print Assumptions C12_unassigned_rejected.
Print Assumptions C12_rotation_shared_counter_refuted.
Print Assumptions C12_wrap_refuted.
